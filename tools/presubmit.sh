#!/bin/bash
# Quick pass of every claimed check under several VERIF_SEED values (default 1 2 3): run after every
# change of a generator or an oracle, before committing. Prints only what needs attention.
cd "$(dirname "$0")/.."
seeds=${*:-1 2 3}
bad=0
for s in $seeds; do
  for p in $(python3 -c "import json;print(' '.join(c['property_id'] for c in json.load(open('MANIFEST.json'))['checks']))"); do
    out=$(VERIF_SEED=$s PHYLIB_VERIF_EVIDENCE_DIR=/dev/shm/presubmit-evidence ./vcheck run $p --tier quick 2>&1); rc=$?
    if [ $rc -ne 0 ] || echo "$out" | grep -q "^VIOLATION"; then
      bad=1; echo "== seed $s $p exit $rc"; echo "$out" | grep -E "VIOLATION|signature|detail|HARNESS" | cut -c1-400
    fi
  done
  echo "seed $s done"
done
rm -rf /dev/shm/presubmit-evidence
exit $bad
