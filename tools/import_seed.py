#!/usr/bin/env python3
"""Confirm a seeded change produced by a sub-agent and keep it under /verif/seeded/<id>/.

usage: import_seed.py <PROP> <A|B> "<what it needs to manifest>" [<suffix kept under /verif/seeded>]

Confirmation (all in a scratch git worktree of /repo outside /repo and /verif, removed afterwards):
  1. the demonstration passes on the clean tree (exit 0);
  2. the patch applies to the clean tree;
  3. the repository's test suite still passes with the patch (52 passed, 2 collection errors);
  4. the demonstration fails with the patch (non-zero exit).
Only then the change is kept.
"""
import json
import os
import shutil
import subprocess
import sys

REPO = '/repo'
VERIF = '/verif'
PY = '/venv/bin/python'
SUITE = [PY, '-m', 'pytest', '-ra', '-q', '-p', 'no:cacheprovider', '--timeout=900',
         '--continue-on-collection-errors']


def sh(cmd, cwd, env=None, timeout=900):
    e = dict(os.environ, TQDM_DISABLE='1')
    if env:
        e.update(env)
    p = subprocess.run(cmd, cwd=cwd, env=e, capture_output=True, text=True, timeout=timeout)
    return p.returncode, (p.stdout + p.stderr)


def main():
    prop, which, needs = sys.argv[1], sys.argv[2], sys.argv[3]
    src = '/tmp/seed-%s/SEED' % prop
    patch = os.path.join(src, 'patch_%s.diff' % which)
    demo = os.path.join(src, 'demo_%s.py' % which)
    sid = '%s-%s' % (prop, sys.argv[4] if len(sys.argv) > 4 else which)
    # the sub-agent's scratch worktree (left clean by the agent) is reused for the confirmation:
    # several demonstrations assert that phylib is imported from exactly that path
    wt = '/tmp/seed-%s' % prop
    subprocess.check_call(['git', 'checkout', '--', 'phylib'], cwd=wt)
    st = subprocess.check_output(['git', 'status', '--porcelain', '-uno'], cwd=wt).decode().strip()
    assert not st, 'worktree not clean: ' + st
    ran = []
    try:
        shutil.copy(demo, os.path.join(wt, 'SEED', 'demo.py'))
        env = {'PYTHONPATH': wt}
        rc0, out0 = sh([PY, 'SEED/demo.py'], wt, env)
        ran.append({'cmd': 'demo on clean tree', 'exit': rc0, 'tail': out0[-300:]})
        rc, out = sh(['git', 'apply', patch], wt)
        ran.append({'cmd': 'git apply patch.diff', 'exit': rc, 'tail': out[-300:]})
        if rc != 0:
            print('PATCH DOES NOT APPLY', out)
            return 1
        rcs, outs = sh(SUITE, wt)
        tail = outs.strip().splitlines()[-1] if outs.strip() else ''
        ran.append({'cmd': ' '.join(SUITE), 'exit': rcs, 'tail': tail})
        rc1, out1 = sh([PY, 'SEED/demo.py'], wt, env)
        ran.append({'cmd': 'demo with the change', 'exit': rc1, 'tail': out1[-400:]})
        ok = rc0 == 0 and rc1 != 0 and '52 passed' in tail and 'failed' not in tail
        print(json.dumps(ran, indent=1))
        if not ok:
            print('NOT CONFIRMED')
            return 1
        dst = os.path.join(VERIF, 'seeded', sid)
        os.makedirs(dst, exist_ok=True)
        shutil.copy(patch, os.path.join(dst, 'patch.diff'))
        shutil.copy(demo, os.path.join(dst, 'demo.py'))
        notes = os.path.join(src, 'notes.md')
        if os.path.exists(notes):
            shutil.copy(notes, os.path.join(dst, 'agent_notes.md'))
        files = subprocess.check_output(['git', 'diff', '--stat'], cwd=wt).decode()
        meta = {'id': sid, 'property': prop, 'checks': [prop],
                'needs_to_manifest': needs,
                'files_changed': files.strip().splitlines()[:-1],
                'confirmed': ran,
                'origin': 'independent sub-agent given only the property text and a scratch '
                          'worktree; confirmed by tools/import_seed.py in that scratch worktree '
                          '(clean tree: demo exit 0; with the patch: suite 52 passed, demo fails)',
                'detected_by': None}
        with open(os.path.join(dst, 'meta.json'), 'w') as f:
            json.dump(meta, f, indent=1)
        print('KEPT', dst)
        return 0
    finally:
        subprocess.run(['git', 'checkout', '--', 'phylib'], cwd=wt, capture_output=True)
        home_phy = os.path.expanduser('~/.phy/test_data')
        if os.path.isdir(home_phy):
            shutil.rmtree(home_phy, ignore_errors=True)


if __name__ == '__main__':
    sys.exit(main())
