#!/usr/bin/env python3
"""Regenerates the tables of DESIGN.md section 10 (between the marker comments) from
/verif/seeded/*/meta.json, /verif/mutants/index.json and notes/sensitivity-last.json."""
import glob
import json
import os
import re

V = '/verif'


def seeded_table():
    rows = ['| id | property | what the change needs in order to manifest | caught by (quick check) | first signatures |',
            '|----|----------|----------------------------------------------|-------------------------|------------------|']
    for meta in sorted(glob.glob(V + '/seeded/*/meta.json')):
        m = json.load(open(meta))
        det = m.get('detected_by') or {}
        caught = [p for p, d in det.items() if d.get('caught')]
        sigs = []
        for p, d in det.items():
            sigs += d.get('signatures', [])[:2]
        note = m.get('not_detected_reason', '')
        rows.append('| %s | %s | %s | %s | %s |' % (
            m['id'], m['property'], m['needs_to_manifest'],
            ', '.join(caught) if caught else ('**not caught** — ' + note if note else '**not caught**'),
            ', '.join('`%s`' % s.split(':', 1)[1] for s in sigs[:2])))
    return '\n'.join(rows)


def mutant_table():
    idx = json.load(open(V + '/mutants/index.json'))['mutants']
    last = {}
    p = V + '/notes/sensitivity-last.json'
    if os.path.exists(p):
        for r in json.load(open(p)):
            last[r['id']] = r
    rows = ['| mutant | targets | what it changes | result |', '|--------|---------|-----------------|--------|']
    for m in idx:
        r = last.get(m['id'])
        if r is None:
            res = 'not in the last sensitivity run'
        elif not r.get('applied'):
            res = 'patch did not apply'
        else:
            parts = []
            for prop, pr in r['props'].items():
                if m.get('negative_control'):
                    parts.append('%s quiet (as required)' % prop if pr['exit'] == 0 else '%s FALSE ALARM' % prop)
                else:
                    parts.append('%s caught' % prop if pr['caught'] else '%s MISSED' % prop)
            res = '; '.join(parts)
        rows.append('| %s | %s | %s | %s |' % (m['id'], ', '.join(m['props']), m['what'], res))
    return '\n'.join(rows)


def main():
    p = V + '/DESIGN.md'
    s = open(p).read()
    for name, fn in (('SEEDED', seeded_table), ('MUTANTS', mutant_table)):
        a = '<!-- %s-TABLE-BEGIN -->' % name
        b = '<!-- %s-TABLE-END -->' % name
        if a in s and b in s:
            s = s[:s.index(a) + len(a)] + '\n' + fn() + '\n' + s[s.index(b):]
    open(p, 'w').write(s)


if __name__ == '__main__':
    main()
