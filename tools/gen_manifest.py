#!/usr/bin/env python3
"""Regenerates /verif/MANIFEST.json from the tables below (single source of truth)."""
import json
import os
import subprocess
import sys

HERE = os.path.dirname(os.path.dirname(os.path.abspath(__file__)))

BASELINE = ("cd /repo && /venv/bin/python -m pytest -ra -q -p no:cacheprovider --timeout=900 "
            "--continue-on-collection-errors")

TRUST = ("Trusted base: the harness (sim/*.py) incl. its reference models; NumPy/SciPy, mtscomp "
         "codec, csv/json, the kernel file system (run as real code); the two-name NumPy-2 import "
         "shim (DESIGN.md 1.3). Sampling, not proof: bounded sizes (DESIGN.md 2.1).")

CHECKS = {
    'C01': dict(engine='E1', technique='deterministic simulation: seeded reader sessions over '
                'simulator-written storage layouts, NumPy-indexing reference model',
                text='Seeded exploration of reader sessions (layouts x index expressions x column '
                     'selectors x cache/chunk knobs) against NumPy indexing of the ground truth the '
                     'simulator wrote itself. A state invariant (class B in DESIGN.md 3): no fault or '
                     'schedule applies; the simulator contributes layout/knob diversity, replay and '
                     'minimisation.', ref='4/C01'),
    'C02': dict(engine='E1', technique='deterministic simulation: seeded histories of derive/select/'
                'read over handles sharing one reader, eager-evaluation reference model',
                text='Seeded handle-tree histories (14 operators, column selection, interleaved reads '
                     'of parents and siblings) compared with eager NumPy evaluation; the aliasing '
                     'clause is a history property observed by later reads of other handles.',
                ref='4/C02'),
    'C03': dict(engine='E1+E2', technique='deterministic simulation with fault injection: chunked '
                'export pipeline through storage under simulator-chosen chunking, pool order and '
                'cache knobs; torn subset store (E2 part); loop reference model',
                text='Seeded exploration of every route to a waveform (direct, chunked export to '
                     'disk, store lookup, model route after save/close/reload) with spikes forced '
                     'onto chunk/file/recording boundaries, simulated decompression-pool order and '
                     'cache knobs; crash fault = torn subset-store file.', ref='4/C03'),
    'C04': dict(engine='E2', technique='deterministic simulation with fault injection: dataset '
                'world written by a sorter actor, listing-order seam, absent-file / NaN-inf / '
                'non-monotonic faults, storage effect log (hash snapshots)',
                text='Seeded dataset configurations (naming scheme, vector shapes, optional files, '
                     'sparse/dense, dtypes, poisoned values) loaded by the real loader under '
                     'permuted directory enumeration; every attribute compared with an independent '
                     'reader of the ground truth; side effects judged from before/after hash '
                     'snapshots.', ref='4/C04'),
    'C05': dict(engine='E2', technique='deterministic simulation: state invariant checked at every '
                'loaded state of the dataset world; independent unwhitening/ordering reference',
                text='get_template / channel queries checked against an independent reference at '
                     'every loaded state the dataset-world histories reach (dense and sparse, '
                     'whitening, geometry, shanks, thresholds). Class B: no fault applies.',
                ref='4/C05'),
    'C06': dict(engine='E2', technique='deterministic simulation: state invariant + history '
                'dependence (waveform route after an earlier subset-store export and reload)',
                text='Sparse-to-dense feature queries compared with a loop reference at every loaded '
                     'state; the waveform-projection route is reached only through a history '
                     '(export store, close, reload).', ref='4/C06'),
    'C08': dict(engine='E2', technique='deterministic simulation: curation histories persisted '
                'through storage and recomputed on (dirty) reload; set/weighted-mean reference',
                text='Seeded merge/split/reassign/empty/undo histories saved with the real writer and '
                     'reloaded (also without close); merge_map, empty ids, cluster waveforms compared '
                     'with an independent reference after every reload.', ref='4/C08'),
    'C09': dict(engine='E2', technique='deterministic simulation: state invariant after curation '
                'histories; direct-formula reference',
                text='Amplitude/depth/duration/peak-channel summaries compared with the direct '
                     'formulas at fresh and curated states (ids without spikes at any position). '
                     'Class B: no fault applies.', ref='4/C09'),
    'C10': dict(engine='E2', technique='deterministic simulation with fault injection: save/close/'
                'dirty-reload histories vs dictionary reference model; torn and malformed metadata '
                'files, torn subset store, listing order, selector draw strategies',
                text='Seeded histories over the real save/load code against a dictionary reference '
                     'model, with crash faults (torn cluster_*.tsv, torn subset-store files), foreign '
                     'malformed metadata, dirty reloads and permuted listings; narrow relaxation only '
                     'for the torn object.', ref='4/C10'),
    'C11': dict(engine='E3', technique='deterministic simulation: multi-party merge pipeline over k '
                'simulator-written probe stores; conservation / exactly-once / ordering oracles; '
                'input immutability via hash snapshots',
                text='Seeded k-probe worlds (ties inside and across probes, gaps, curated clusters, '
                     'TSV presence patterns, dtypes) merged by the real Merger; each spike tagged by '
                     'a unique amplitude so conservation and order are decided exactly.',
                ref='4/C11'),
    'C12': dict(engine='E3', technique='deterministic simulation: block-structure oracles on the '
                'same merge runs (k >= 3, unequal sizes weighted up)',
                text='Structure oracles (channel blocks, x translation, template blocks, block-'
                     'diagonal matrices, shifted index tables, params) on the merge runs. Class B.',
                ref='4/C12'),
    'C13': dict(engine='E3', technique='deterministic simulation with fault injection: ALF export '
                'effects on source and target stores, uuid/selector/listing seams, removed optional '
                'files, reload of the output',
                text='Seeded dense datasets converted by the real EphysAlfCreator under permuted '
                     'listings, seeded uuids and selector draws; object-table dimensions, label '
                     'insertion, reload equality and source-directory effects (hash snapshots).',
                ref='4/C13'),
    'C14': dict(engine='E3', technique='deterministic simulation: value oracles on the export runs '
                'incl. merge->export pipelines with k >= 3 probes',
                text='Exported values compared with independently computed physical quantities on '
                     'the C13 runs and on merge->export pipelines. Class B.', ref='4/C14'),
    'C17': dict(engine='E4+E2', technique='deterministic simulation: the simulator owns the random draw '
                '(np.random.choice replaced by seeded and adversarial legal draws); constraint oracle; '
                'model-level use checked in the dataset world under the chunk knob',
                text='Selector scenarios (spikes on chunk bounds, strides not dividing the chunk '
                     'count, unknown clusters, subsets) under seeded and adversarial draw '
                     'strategies, each a legal outcome of the real draw.', ref='4/C17'),
    'C19': dict(engine='E5', technique='deterministic simulation with fault injection: histories of '
                'many parties on one shared emitter, re-entrant and raising callbacks, exceptions '
                'inside silencing contexts; list reference model',
                text='Seeded histories over the shared emitter and progress reporters compared call '
                     'by call with a list model; faults = exceptions in callbacks and in silent() '
                     'bodies.', ref='4/C19'),
    'C20': dict(engine='E6', technique='deterministic simulation with fault injection: scripted and '
                'seeded network fault sequences against an in-process server, disk-full on n-th '
                'write; three-state reference',
                text='The statement\'s own scenario space (351) is enumerated completely on every '
                     'quick run, then seeded scenarios over a richer fault alphabet (truncated/'
                     'extended bodies, resets mid-stream, connection errors, ENOSPC, two calls in a '
                     'row).', ref='4/C20', level='fault_enumeration'),
}

NOT_APPLICABLE = {
    'C07': 'free in-memory index helpers: no state, I/O, randomness, schedule or fault; the statement '
           'asks for exhaustive small-scope enumeration (model checking), not simulation; the '
           'model-level clause is on the path of C08/C09/C10/C13 oracles (DESIGN.md 4/C07)',
    'C15': 'correlograms/firing_rate are pure functions of their array arguments; brute-force '
           'comparison over small inputs is enumeration, not simulation (DESIGN.md 4/C15)',
    'C16': 'chunk_bounds/excerpts/_get_chunk_bounds are pure arithmetic; the reader-level clause has '
           'no observable dependence on the pool or cache (DESIGN.md 4/C16); gaps/overlaps in a '
           'reader chunk iterator surface under C03',
    'C18': 'save immediately followed by load of the same value: a pure function of the value with '
           'no history, schedule, randomness or fault in the statement (DESIGN.md 4/C18)',
}


def main():
    built = sys.argv[1].split(',') if len(sys.argv) > 1 else sorted(CHECKS)
    props = [json.loads(l)['id'] for l in open(os.path.join(HERE, 'properties.jsonl'))]
    commits = subprocess.check_output(
        ['git', '-C', '/repo', 'log', '--format=%h %s', 'c28ea4f..HEAD']).decode().splitlines()
    checks = []
    for p in props:
        if p not in CHECKS or p not in built:
            continue
        c = CHECKS[p]
        checks.append({
            'property_id': p,
            'quick_cmd': './vcheck run %s --tier quick' % p,
            'thorough_cmd': './vcheck run %s --tier thorough' % p,
            'evidence_file': 'evidence/%s.json' % p,
            'replay_cmd_template': './vcheck replay {path}',
            'engine': c['engine'],
            'level_claimed': {'category': c.get('level', 'exploration'), 'text': c['text'],
                              'design_ref': 'DESIGN.md section ' + c['ref']},
            'level_note': TRUST,
            'technique': c['technique'],
        })
    na = []
    for p in props:
        if p in NOT_APPLICABLE:
            na.append({'property_id': p, 'reason': NOT_APPLICABLE[p]})
        elif p not in built:
            na.append({'property_id': p, 'reason': 'check not built yet (work in progress; planned '
                       'decision in DESIGN.md section 0)'})
    m = {
        'version': 1,
        'setup_cmd': './vcheck setup',
        'hooks': {
            'guard': 'PHYLIB_VERIF_HOOKS',
            'enable': 'no hook commits: every seam is a module attribute patched from the harness '
                      '(DESIGN.md 1.2); the guard variable is unused',
            'baseline_off_cmd': BASELINE,
            'source_commits': [],
            'add_only': True,
        },
        'engines': [
            {'name': 'E1', 'path': 'sim/e1_readers.py', 'serves_properties': ['C01', 'C02', 'C03'],
             'kind_free_text': 'reader sessions over simulator-written recordings'},
            {'name': 'E2', 'path': 'sim/e2_dataset.py',
             'serves_properties': ['C03', 'C04', 'C05', 'C06', 'C08', 'C09', 'C10', 'C17'],
             'kind_free_text': 'dataset world: sorter actor, load/curate/save/close/reload '
                               'histories, storage faults'},
            {'name': 'E3', 'path': 'sim/e3_pipeline.py',
             'serves_properties': ['C11', 'C12', 'C13', 'C14'],
             'kind_free_text': 'merge / ALF export pipelines over k probe stores'},
            {'name': 'E4', 'path': 'sim/e4_selector.py', 'serves_properties': ['C17'],
             'kind_free_text': 'spike selector under simulator-owned random draws'},
            {'name': 'E5', 'path': 'sim/e5_events.py', 'serves_properties': ['C19'],
             'kind_free_text': 'shared event bus histories'},
            {'name': 'E6', 'path': 'sim/e6_download.py', 'serves_properties': ['C20'],
             'kind_free_text': 'download against an in-process faulty server'},
        ],
        'checks': checks,
        'not_applicable': na,
        'notes': 'Genuine defects repaired in /repo as unguarded "fix:" commits (listed in '
                 'known_findings.json as fixed): ' + '; '.join(commits),
    }
    with open(os.path.join(HERE, 'MANIFEST.json'), 'w') as f:
        json.dump(m, f, indent=1)
    print('MANIFEST.json: %d checks, %d not applicable' % (len(checks), len(na)))


if __name__ == '__main__':
    main()
