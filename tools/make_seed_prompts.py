#!/usr/bin/env python3
"""Prepares one round of independent seeded changes (DESIGN.md 10.1): for every claimed property a
scratch worktree /tmp/seed-<P> of /repo HEAD and a file /tmp/prop-<P>.txt holding ONLY the text of
the property plus one line per idea earlier rounds already used (so that a new round looks
elsewhere). Nothing from /verif's machinery is given to the sub-agents; the prompt is
tools/seed-prompt.txt with @ID@ replaced by the property id."""
import glob
import json
import os
import re
import subprocess
import sys

HERE = os.path.dirname(os.path.dirname(os.path.abspath(__file__)))


# Readings under which a change does NOT break the property (earlier rounds produced such changes;
# they are kept as negative controls, more of them teach nothing new).
OUT_OF_SCOPE = {
    'C01': 'changes that only matter when the caller modifies a returned block in place',
    'C02': 'empty row selections (C01 excludes empty slices); the synthetic RandomEphysReader; NumPy '
           'scalars on the LEFT of an operator (NumPy itself converts them before the reader sees them)',
    'C03': 'a LOAD that fails because a subset-store file is torn / empty (the property only promises '
           'that a torn store never yields a wrong window)',
    'C08': 'which of two templates with exactly tied spike counts counts as dominant',
    'C09': 'which of two templates with exactly tied spike counts counts as dominant; the optional '
           'params.py key template_scaling',
    'C10': 'a LOAD that fails because a subset-store file is torn / empty',
    'C12': 'merging into an output directory that already holds a merge of a different probe set',
    'C13': 'a LOAD that fails because a subset-store file is torn / empty',
    'C19': 'the state of a progress reporter after one of its own listeners raised',
    'C20': 'what the call does while the checksum is UNAVAILABLE (missing / connection error), '
           'including checksum availability that changes in the middle of one call',
}


def main():
    man = json.load(open(os.path.join(HERE, 'MANIFEST.json')))
    claimed = [c['property_id'] for c in man['checks']]
    only = sys.argv[1].split(',') if len(sys.argv) > 1 else claimed
    props = {}
    for l in open(os.path.join(HERE, 'properties.jsonl')):
        d = json.loads(l)
        props[d['id']] = d
    for p in only:
        d = props[p]
        used = []
        for m in sorted(glob.glob(os.path.join(HERE, 'seeded', p + '-*', 'meta.json'))):
            meta = json.load(open(m))
            patch = open(os.path.join(os.path.dirname(m), 'patch.diff')).read()
            funcs = sorted(set(re.findall(r'^@@.*@@\s*(?:def|class)\s+(\w+)', patch, re.M)))
            files = sorted(set(re.findall(r'^\+\+\+ b/(\S+)', patch, re.M)))
            used.append('- in %s (%s): manifests only with: %s' % (
                ', '.join(files), ', '.join(funcs) or 'module level', meta['needs_to_manifest']))
        txt = ['PROPERTY %s: %s' % (p, d['title']), '', 'Statement: ' + d['statement'], '',
               'Quantified over: ' + d['quantifier']['text'], '',
               'Anchored in: ' + ', '.join(d['anchors']['files']), 'Mechanisms:']
        for mech in d['anchors'].get('mechanism', []):
            txt.append('  - %s (%s)' % (mech['name'], mech['where']))
        if p in OUT_OF_SCOPE:
            txt += ['', 'Out of scope (the property is read as NOT constraining these; do not build '
                        'a change on them): ' + OUT_OF_SCOPE[p] + '.']
        txt += ['', 'Helper functions called by these mechanisms (anywhere in the library) are fair '
                    'game too.', '',
                'Ideas ALREADY USED by earlier rounds (do something different, preferably in a '
                'different clause or mechanism):'] + used
        open('/tmp/prop-%s.txt' % p, 'w').write('\n'.join(txt) + '\n')
        wt = '/tmp/seed-%s' % p
        if not os.path.exists(wt):
            subprocess.check_call(['git', '-C', '/repo', 'worktree', 'add', '--detach', '-q', wt])
        print(p, len(used), 'used ideas', wt)


if __name__ == '__main__':
    main()
