import sys
import os
import warnings
warnings.filterwarnings('ignore')
sys.path.insert(0, os.path.dirname(os.path.abspath(__file__)))
from sim.cli import main  # noqa
if len(sys.argv) > 1 and sys.argv[1] == '_digests':
    from sim import selftest
    sys.exit(selftest._child_digests(sys.argv[2:]))
sys.exit(main(sys.argv[1:]))
