import sys
import os
import warnings
warnings.filterwarnings('ignore')
sys.path.insert(0, os.path.dirname(os.path.abspath(__file__)))
from sim.cli import main  # noqa
if len(sys.argv) > 1 and sys.argv[1] == '_exec':
    # execute one plan file in this fresh interpreter and print its verdict (used by the hermetic
    # fallback of the shrinker when a violation depends on state the library keeps between runs)
    import json
    from sim import core, engines, seams
    seams.import_phylib()
    doc = json.load(open(sys.argv[2]))
    res = core.execute_with_prelude(doc)
    print(json.dumps({'verdict': res.verdict, 'signature': res.signature,
                      'log_digest': res.log_digest}))
    sys.exit(0)
if len(sys.argv) > 1 and sys.argv[1] == '_digests':
    from sim import selftest
    sys.exit(selftest._child_digests(sys.argv[2:]))
sys.exit(main(sys.argv[1:]))
