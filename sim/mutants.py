# -*- coding: utf-8 -*-
"""Sensitivity self-test: known property-breaking changes must be caught by the quick checks.

Every mutant is a patch (under /verif/mutants or /verif/seeded/<id>/patch.diff) applied to a scratch
copy of /repo's working tree outside /repo and /verif; the quick check of each targeted property is
run against the copy through PHYLIB_VERIF_REPO with evidence and replays redirected to the scratch
area, and must exit 1 with a VIOLATION line. The copy is removed afterwards.
"""

import json
import os
import shutil
import subprocess
import sys
import time
from concurrent.futures import ThreadPoolExecutor
from pathlib import Path

from . import core

VERIF = core.VERIF
MUTANTS = VERIF / 'mutants'
SEEDED = VERIF / 'seeded'


def _scratch_root():
    base = '/dev/shm' if os.path.isdir('/dev/shm') else (os.environ.get('TMPDIR') or '/tmp')
    p = Path(base) / 'phyverif-mutants'
    p.mkdir(parents=True, exist_ok=True)
    return p


def _copy_repo(dst):
    repo = Path(os.environ.get('PHYLIB_VERIF_BASE_REPO', '/repo'))
    dst.mkdir(parents=True)
    shutil.copytree(repo / 'phylib', dst / 'phylib',
                    ignore=shutil.ignore_patterns('__pycache__', '*.pyc'))
    return dst


def _apply(patch, dst):
    p = subprocess.run(['patch', '-p1', '--no-backup-if-mismatch', '-s', '-i', str(patch)],
                       cwd=str(dst), capture_output=True, text=True)
    return p.returncode == 0, (p.stdout + p.stderr)[-500:]


def run_one(mid, patch, props, runs=None, workers=4, stop_early=True):
    root = _scratch_root() / ('%s-%d' % (mid, os.getpid()))
    if root.exists():
        shutil.rmtree(root)
    out = {'id': mid, 'props': {}, 'applied': False}
    try:
        _copy_repo(root / 'repo')
        ok, msg = _apply(patch, root / 'repo')
        out['applied'] = ok
        if not ok:
            out['error'] = msg
            return out
        for prop in props:
            env = dict(os.environ, PHYLIB_VERIF_REPO=str(root / 'repo'),
                       PHYLIB_VERIF_EVIDENCE_DIR=str(root / 'evidence'),
                       PHYLIB_VERIF_REPLAY_DIR=str(root / 'replays'),
                       PHYLIB_VERIF_SCRATCH=str(root / 'scratch'),
                       VERIF_WORKERS=str(workers), VERIF_TIER='quick')
            if stop_early:
                env['VERIF_STOP_ON_VIOLATION'] = '1'
            cmd = [str(VERIF / 'vcheck'), 'run', prop, '--tier', 'quick']
            if runs:
                cmd += ['--runs', str(runs)]
            t0 = time.time()
            p = subprocess.run(cmd, capture_output=True, text=True, env=env, timeout=1200)
            viol = [l for l in p.stdout.splitlines() if l.startswith('VIOLATION property=%s' % prop)]
            sigs = [l.strip() for l in p.stdout.splitlines() if l.strip().startswith('signature=')]
            try:   # keep the first minimised replay file as an example of what is reported
                rps = sorted((root / 'replays').glob('%s-*.json' % prop))
                if rps and p.returncode == 1:
                    keep = VERIF / 'notes' / 'mutant-replays'
                    keep.mkdir(parents=True, exist_ok=True)
                    shutil.copy(rps[0], keep / ('%s--%s.json' % (mid, prop)))
            except Exception:
                pass
            out['props'][prop] = {'exit': p.returncode, 'caught': p.returncode == 1 and bool(viol),
                                  'signatures': [s.split()[0][len('signature='):] for s in sigs][:4],
                                  'wall_s': round(time.time() - t0, 1),
                                  'tail': p.stdout[-300:] if p.returncode not in (0, 1) else ''}
        return out
    finally:
        shutil.rmtree(root, ignore_errors=True)


def load_index():
    idx = json.loads((MUTANTS / 'index.json').read_text())
    return idx['mutants']


def run(only=None, seeded_too=False):
    items = []
    for m in load_index():
        if only and m['id'] not in only.split(',') and not set(m['props']) & set(only.split(',')):
            continue
        items.append((m['id'], MUTANTS / m['patch'], m['props'], bool(m.get('negative_control'))))
    return _run_items(items, 'sensitivity')


def run_seeded(only=None):
    items = []
    if SEEDED.exists():
        for d in sorted(SEEDED.iterdir()):
            meta = d / 'meta.json'
            if not meta.exists():
                continue
            m = json.loads(meta.read_text())
            if only and d.name not in only.split(',') and m['property'] not in only.split(','):
                continue
            props = m.get('checks', [m['property']])
            items.append((d.name, d / 'patch.diff', props,
                          'documented' if m.get('expected_undetected') else False))
    return _run_items(items, 'seeded')


def _run_items(items, title):
    results = []
    with ThreadPoolExecutor(max_workers=4) as ex:
        futs = [ex.submit(run_one, mid, patch, props, stop_early=not neg)
                for mid, patch, props, neg in items]
        for f, it in zip(futs, items):
            r = f.result()
            r['negative_control'] = it[3]
            results.append(r)
    missed = 0
    for r in results:
        if not r['applied']:
            print('%s %-44s PATCH-DID-NOT-APPLY %s' % (title, r['id'], r.get('error', '')[:200]))
            missed += 1
            continue
        for prop, pr in r['props'].items():
            if r['negative_control'] == 'documented':
                # a documented seed leaves the property intact inside the claimed domain: a report
                # on it is a suspected false alarm of the check and fails the self-test
                status = ('REPORTED-THOUGH-DOCUMENTED-AS-ADMISSIBLE' if pr['caught'] else
                          'not-caught(documented: outside the statement)')
                if pr['caught']:
                    missed += 1
            elif r['negative_control']:
                status = 'quiet(ok)' if pr['exit'] == 0 else 'FALSE-ALARM(exit=%s)' % pr['exit']
                if pr['exit'] != 0:
                    missed += 1
            else:
                status = 'caught' if pr['caught'] else 'MISSED(exit=%s)' % pr['exit']
                if not pr['caught']:
                    missed += 1
            print('%s %-44s %s %-8s %5.1fs %s %s' % (title, r['id'], prop, status, pr['wall_s'],
                                                    ','.join(pr['signatures'][:2]), pr['tail']))
    if title == 'seeded':
        for r in results:
            meta = SEEDED / r['id'] / 'meta.json'
            if meta.exists() and r['applied']:
                m = json.loads(meta.read_text())
                m['detected_by'] = {
                    prop: {'caught': pr['caught'], 'quick_check_exit': pr['exit'],
                           'signatures': pr['signatures']} for prop, pr in r['props'].items()}
                m['what_i_ran'] = ('git apply patch.diff on a scratch copy of /repo (outside /repo '
                                   'and /verif), ./vcheck run <property> --tier quick against it via '
                                   'PHYLIB_VERIF_REPO, copy removed; see sim/mutants.py')
                meta.write_text(json.dumps(m, indent=1))
    print('%s: %d mutants, %d (mutant, property) pairs missed' % (title, len(results), missed))
    out = VERIF / 'notes' / ('%s-last.json' % title)
    out.parent.mkdir(exist_ok=True)
    out.write_text(json.dumps(results, indent=1))
    return 0 if missed == 0 else 1
