# -*- coding: utf-8 -*-
"""Recording world: the harness writes raw recordings itself (and therefore knows the ground
truth), in every storage layout phylib's readers support."""

import random

import numpy as np

DTYPES = ['int16', 'uint8', 'int32', 'float32', 'float64']


def make_data(n, c, dtype, seed):
    """Ground-truth array (n, c). Values distinct where the dtype allows, exactly representable."""
    rs = np.random.RandomState(seed % (2 ** 32))
    dt = np.dtype(dtype)
    perm = rs.permutation(n * c).reshape((n, c)).astype(np.int64)
    if dt == np.uint8:
        return rs.randint(0, 256, size=(n, c)).astype(np.uint8)
    if dt == np.int16:
        return (perm - (n * c) // 2).astype(np.int16)
    if dt == np.int32:
        return ((perm - (n * c) // 2) * 7).astype(np.int32)
    if dt == np.float32:
        return ((perm - (n * c) // 2) / 8.0).astype(np.float32)
    if dt == np.float64:
        return ((perm - (n * c) // 2) / 16.0 + 1.0 / 3.0).astype(np.float64)
    raise ValueError(dtype)


def composition(rng, n, k):
    """Random composition of n into k parts >= 1 (biased to contain parts of length 1)."""
    k = max(1, min(k, n))
    if k == 1:
        return [n]
    cuts = sorted(rng.sample(range(1, n), k - 1))
    if rng.random() < 0.3 and n > k:
        # force a part of length 1 somewhere
        i = rng.randrange(len(cuts))
        if cuts[i] + 1 < n and (i + 1 >= len(cuts) or cuts[i + 1] != cuts[i] + 1):
            cuts.insert(i + 1, cuts[i] + 1)
            cuts = sorted(set(cuts))[:k - 1]
    parts = [b - a for a, b in zip([0] + cuts, cuts + [n])]
    assert sum(parts) == n and all(p >= 1 for p in parts)
    return parts


def gen_recording_cfg(rng, prop, tier, backends=None, dtypes=None, max_n=64, max_c=6):
    backend = rng.choice(backends or ['flat', 'flat', 'flat', 'npy', 'array', 'cbin'])
    dts = dtypes or DTYPES
    dtype = rng.choice(dts)
    if backend == 'cbin':
        dtype = rng.choice([d for d in dts if d in ('int16', 'int32', 'uint8')] or ['int16'])
    n = rng.randint(2, max_n)
    if rng.random() < 0.15:
        n = rng.randint(1, 4)
    c = rng.randint(1, max_c)
    sr = rng.choice([1.0, 10.0, 100.0, 2500.0])
    cfg = {'backend': backend, 'n': n, 'c': c, 'dtype': dtype, 'sr': sr,
           'data_seed': rng.randint(0, 2 ** 31), 'offset': 0, 'parts': [n], 'ext': '.dat',
           'chunk': None, 'cbin_chunk': None, 'n_threads': None, 'cache_size': None,
           'pool': None, 'via_path': True}
    # chunk knob for every backend using DEFAULT_CHUNK_DURATION
    if rng.random() < 0.8:
        cfg['chunk'] = rng.choice([1, 2, 3, 5, 7, 16, max(1, n // 2), n, n + 3])
    if backend == 'flat':
        cfg['parts'] = composition(rng, n, rng.choice([1, 1, 2, 3, 4]) if rng.random() < 0.93
                                   else rng.choice([9, 10, 12, 17, 33]))
        cfg['offset'] = rng.choice([0, 0, 1, 2, 7, 16, 64])
        cfg['ext'] = rng.choice(['.dat', '.bin', '.raw'])
        cfg['naming'] = rng.choice(['indexed', 'unpadded', 'reversed'])
    if backend in ('flat', 'npy', 'array') and dtype != 'uint8' and rng.random() < 0.12:
        cfg['byteorder'] = '>'      # samples stored in the non-native byte order
    if backend == 'npy' and rng.random() < 0.2:
        cfg['npy_fortran'] = True   # saved from a column-major (channels x samples transposed) buffer
    if backend == 'cbin':
        cfg['cbin_chunk'] = rng.choice([1, 2, 3, 5, 8, max(1, n // 3), n, n + 2])
        cfg['n_threads'] = rng.randint(1, 4)
        cfg['cache_size'] = rng.randint(1, 6)
        cfg['pool'] = rng.choice(['forward', 'backward', 'shuffled', 'evens_first'])
        cfg['via_path'] = rng.random() < 0.4
    return cfg


def knobs_for(cfg):
    k = {}
    if cfg.get('chunk'):
        k['chunk_duration'] = cfg['chunk'] / cfg['sr']
    if cfg['backend'] == 'cbin' and cfg.get('via_path'):
        k['cpu_count'] = 2 * (cfg.get('n_threads') or 1)
    return k


class Recording(object):
    """A stored recording + the ground truth + the opened reader."""

    def __init__(self, cfg, root, ctx):
        import mtscomp
        from phylib.io.traces import get_ephys_reader
        self.cfg = cfg
        n, c = cfg['n'], cfg['c']
        self.A = make_data(n, c, cfg['dtype'], cfg['data_seed'])
        if cfg.get('byteorder'):
            self.A = self.A.astype(self.A.dtype.newbyteorder(cfg['byteorder']))
            ctx.probe('non_native_byte_order')
        self.paths = []
        self._mts = None
        backend = cfg['backend']
        dt = self.A.dtype
        if backend == 'flat':
            i = 0
            for k, p in enumerate(cfg['parts']):
                naming = cfg.get('naming', 'indexed')
                if naming == 'unpadded':      # t8, t9, t10, t11: lexicographic != numeric order
                    stem = 'rec_g0_t%d' % (k + 8)
                elif naming == 'reversed':    # given order is the reverse of the sorted order
                    stem = 'rec_%s' % 'dcba'[k % 4] if len(cfg['parts']) <= 4 else 'rec%d' % k
                else:
                    stem = 'rec%d' % k
                path = root / (stem + cfg['ext'])
                with open(path, 'wb') as f:
                    f.write(bytes((j * 37 + 11) % 256 for j in range(cfg['offset'])))
                    f.write(np.ascontiguousarray(self.A[i:i + p]).tobytes())
                i += p
                self.paths.append(path)
            arg = self.paths if len(self.paths) > 1 or cfg.get('as_list') else self.paths[0]
            self.reader = ctx.real('open_reader', get_ephys_reader, arg, n_channels_dat=c,
                                   dtype=dt, offset=cfg['offset'], sample_rate=cfg['sr'])
        elif backend == 'npy':
            path = root / 'rec.npy'
            if cfg.get('npy_fortran'):
                np.save(path, np.asfortranarray(self.A))
                ctx.probe('npy_fortran_order')
            else:
                np.save(path, self.A)
            self.paths.append(path)
            self.reader = ctx.real('open_reader', get_ephys_reader, path, sample_rate=cfg['sr'])
        elif backend == 'array':
            self.reader = ctx.real('open_reader', get_ephys_reader, self.A.copy(),
                                   sample_rate=cfg['sr'])
        elif backend == 'cbin':
            raw = root / 'rec.bin'
            raw.write_bytes(np.ascontiguousarray(self.A).tobytes())
            out = root / 'rec.cbin'
            outmeta = root / 'rec.ch'
            mtscomp.compress(raw, out, outmeta, sample_rate=cfg['sr'], n_channels=c, dtype=dt,
                             chunk_duration=cfg['cbin_chunk'] / cfg['sr'],
                             n_threads=cfg['n_threads'], check_after_compress=False, quiet=True)
            raw.unlink()
            self.paths.append(out)
            if cfg.get('via_path'):
                self.reader = ctx.real('open_reader', get_ephys_reader, out,
                                       sample_rate=cfg['sr'])
                self._mts = self.reader.reader
                self._mts.quiet = True
                if cfg.get('cache_size'):
                    self._mts.set_cache_size(cfg['cache_size'])
            else:
                r = mtscomp.Reader(n_threads=cfg['n_threads'], cache_size=cfg['cache_size'],
                                   quiet=True, check_after_decompress=False)
                r.open(out, outmeta)
                self._mts = r
                self.reader = ctx.real('open_reader', get_ephys_reader, r,
                                       sample_rate=cfg['sr'])
        else:
            raise ValueError(backend)
        ctx.on_cleanup(self.close)

    def close(self):
        try:
            if self._mts is not None:
                if self._mts.pool is not None:
                    self._mts.pool = None
                self._mts.close()
        except Exception:
            pass
        # (the readers' memory maps are NOT closed by hand: the code under test may legitimately
        # still hold them, and a closed map that is read again kills the interpreter instead of
        # giving a verdict; dropping the references lets them go)
        self.reader = None

    def expected_part_bounds(self):
        cfg = self.cfg
        if cfg['backend'] == 'flat':
            return [0] + list(np.cumsum(cfg['parts']))
        return [0, cfg['n']]

    def expected_chunk_bounds(self):
        """Chunk grid of the reader (computed independently from the knobs)."""
        cfg = self.cfg
        n = cfg['n']
        if cfg['backend'] == 'cbin':
            size = cfg['cbin_chunk']
            b = list(range(0, n, size)) + [n]
            return b
        size = cfg['chunk'] if cfg.get('chunk') else int(round(600.0 * cfg['sr']))
        parts = cfg['parts'] if cfg['backend'] == 'flat' else [n]
        b = [0]
        start = 0
        for p in parts:
            x = start
            while x + size < start + p:
                x += size
                b.append(x)
            b.append(start + p)
            start += p
        return b


def window_ref(A, s, w, chans):
    """The zero-padded raw window of the statement, written with explicit loops."""
    n = A.shape[0]
    out = np.zeros((w, len(chans)), dtype=A.dtype)
    first = int(s) - w // 2
    for r in range(w):
        row = first + r
        if 0 <= row < n:
            for j, ch in enumerate(chans):
                ch = int(ch)
                if ch != -1:
                    out[r, j] = A[row, ch]
    return out
