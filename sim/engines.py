# -*- coding: utf-8 -*-
"""Registry: engine name -> module; property -> (engine, level, budgets)."""

import importlib

_ENGINES = {
    'E1': 'sim.e1_readers',
    'E2': 'sim.e2_dataset',
    'E3': 'sim.e3_pipeline',
    'E4': 'sim.e4_selector',
    'E5': 'sim.e5_events',
    'E6': 'sim.e6_download',
}

# property -> dict(engine, level, quick_runs, thorough_s)
PROPS = {
    'C01': dict(engine='E1', level='exploration', quick_runs=30000, thorough_s=480),
    'C02': dict(engine='E1', level='exploration', quick_runs=40000, thorough_s=480),
    'C03': dict(engine='E1', level='exploration', quick_runs=16000, thorough_s=600,
                extra=[('E2', 3000, 0.5)]),
    'C04': dict(engine='E2', level='exploration', quick_runs=6000, thorough_s=600),
    'C05': dict(engine='E2', level='exploration', quick_runs=12000, thorough_s=480),
    'C06': dict(engine='E2', level='exploration', quick_runs=10000, thorough_s=480),
    'C08': dict(engine='E2', level='exploration', quick_runs=7000, thorough_s=600),
    'C09': dict(engine='E2', level='exploration', quick_runs=8000, thorough_s=480),
    'C10': dict(engine='E2', level='exploration', quick_runs=5000, thorough_s=900),
    'C11': dict(engine='E3', level='exploration', quick_runs=6000, thorough_s=600),
    'C12': dict(engine='E3', level='exploration', quick_runs=6000, thorough_s=600),
    'C13': dict(engine='E3', level='exploration', quick_runs=5000, thorough_s=720),
    'C14': dict(engine='E3', level='exploration', quick_runs=5000, thorough_s=720),
    'C17': dict(engine='E4', level='exploration', quick_runs=150000, thorough_s=300,
                extra=[('E2', 2500, 0.4)]),
    'C19': dict(engine='E5', level='exploration', quick_runs=300000, thorough_s=300),
    'C20': dict(engine='E6', level='fault_enumeration', quick_runs=100000, thorough_s=300),
}


def get(name):
    return importlib.import_module(_ENGINES[name])


def for_prop(prop):
    cfg = PROPS[prop]
    return cfg['engine'], get(cfg['engine']), cfg


def parts_for(prop):
    """[(engine_name, engine, quick_runs, share of the thorough budget)]"""
    cfg = PROPS[prop]
    extra = cfg.get('extra', [])
    main_share = 1.0 - sum(e[2] for e in extra)
    out = [(cfg['engine'], get(cfg['engine']), cfg['quick_runs'], main_share)]
    for name, runs, share in extra:
        out.append((name, get(name), runs, share))
    return out
