# -*- coding: utf-8 -*-
"""E4 — spike selector under simulator-owned random draws (C17).

Real code: phylib.io.array.SpikeSelector / _times_in_chunks / _flatten_per_cluster.
Stub: np.random.choice (seeded and adversarial draw strategies, each a legal outcome).
"""

import copy

import numpy as np

from . import seams

NAME = 'E4'
COMPONENTS = {
    'real': ['phylib.io.array.SpikeSelector (constructor stride logic, __call__), '
             '_times_in_chunks, _flatten_per_cluster'],
    'stub': ['np.random.choice -> simulator draw strategy (seeded real draw, first-k, last-k, '
             'evenly spread, each also reversed); get_spikes_per_cluster callback supplied by the '
             'harness from the ground-truth cluster vector'],
}
RULE = {'C17': (
    'a plan = spike times (with members exactly on chunk bounds), cluster vector, chunk grid '
    '(2..m bounds), number of kept chunks (1..m+2), a draw strategy, and 1..6 selector calls '
    '(n in {None, 0, small, large}, cluster lists incl. empty / unknown ids, chunk restriction, '
    'spike subset); constraint oracle exactly as stated. distinct = distinct plan digests; '
    'non-trivial = at least one call checked after construction')}
STATE_MEASURE = ('(#chunks bucket, stride, spike-on-bound?, n class, unknown cluster?, subset?, '
                 'chunk restriction?, draw strategy)')
ASSUMPTIONS = [
               'the chunk-grid clause requires kept indices = range(0, n_chunks, s) for some s >= 1 '
               'and at most the requested number; it does not require a particular s']
EXPECTED_PROBES = {'C17': ['spike_on_bound', 'stride_not_dividing', 'unknown_cluster',
                           'subsampled_cluster', 'exactly_n_eligible', 'empty_request',
                           'subset_and_chunks', 'kept_more_than_chunks', 'float_chunk_grid', 'subset_with_repeated_id', 'spike_before_first_bound', 'spike_times_not_sorted',
                           'cluster_requested_twice']}


def gen(rng, prop, tier):
    big = tier == 'thorough'
    m = rng.randint(2, 12 if not big else 24)  # number of bounds
    step_choices = [1, 2, 3, 5, 10]
    bounds = [rng.choice([0, 0, 0, 3, 7])]     # a grid need not start at time 0
    for _ in range(m - 1):
        bounds.append(bounds[-1] + rng.choice(step_choices))
    T = bounds[-1]
    ns = rng.randint(0, 60 if not big else 200)
    times = []
    for _ in range(ns):
        if rng.random() < 0.35:
            times.append(rng.choice(bounds))
        else:
            times.append(rng.randint(0, T + (2 if rng.random() < 0.2 else 0)))
    times.sort()
    if ns >= 2 and rng.random() < 0.12:
        # spike times not increasing along the spike ids (sorters write a few out-of-order spikes
        # at batch borders): a few transpositions, some of them far apart
        for _ in range(rng.randint(1, 4)):
            i = rng.randrange(ns)
            j = min(ns - 1, i + rng.choice([1, 1, 2, 5, ns]))
            times[i], times[j] = times[j], times[i]
    n_clu = rng.randint(1, 6)
    ids = rng.sample(range(0, 12), n_clu)
    clusters = [rng.choice(ids) for _ in range(ns)]
    cfg = {'bounds': bounds, 'times': times, 'time_dtype': rng.choice(['int64', 'uint64', 'int32']),
           'scale': rng.choice([1, 1, 1, 1.1, 0.37, 2.5]),
           'clusters': clusters, 'n_kept': rng.randint(1, m + 2),
           'draw': rng.choice(seams.DRAW_STRATEGIES), 'seed': rng.randint(0, 2 ** 31)}
    ops = []
    for _ in range(rng.randint(1, 6)):
        req = [c for c in range(0, 14) if rng.random() < 0.3]
        if rng.random() < 0.5:
            req = sorted(set(ids + [rng.randint(0, 14)]))
        if rng.random() < 0.1:
            req = []
        if req and rng.random() < 0.12:
            req = req + [rng.choice(req) for _ in range(rng.randint(1, 2))]   # an id named twice
        rng.shuffle(req)
        n = rng.choice([None, 0, 1, 2, 3, 5, 10, 1000])
        subset = None
        if rng.random() < 0.35 and ns:
            subset = sorted(rng.sample(range(ns), rng.randint(0, ns)))
            if subset and rng.random() < 0.2:
                # an id listed twice (a caller concatenating two selections)
                subset = subset + [rng.choice(subset) for _ in range(rng.randint(1, 3))]
                subset.sort()
            if rng.random() < 0.3:
                rng.shuffle(subset)
        ops.append({'op': 'call', 'n': n, 'clusters': req, 'chunks': rng.random() < 0.6,
                    'subset': subset})
    return {'engine': NAME, 'cfg': cfg, 'ops': ops}


def simplify(plan):
    cfg = plan['cfg']
    if cfg['draw'] != 'first':
        p = copy.deepcopy(plan)
        p['cfg']['draw'] = 'first'
        yield p
    if cfg['time_dtype'] != 'int64':
        p = copy.deepcopy(plan)
        p['cfg']['time_dtype'] = 'int64'
        yield p
    if cfg.get('scale', 1) != 1:
        p = copy.deepcopy(plan)
        p['cfg']['scale'] = 1
        yield p
    subsets_used = any(op.get('subset') for op in plan['ops'])
    if not subsets_used:
        for i in reversed(range(len(cfg['times']))):
            p = copy.deepcopy(plan)
            del p['cfg']['times'][i]
            del p['cfg']['clusters'][i]
            yield p
    for j, op in enumerate(plan['ops']):
        if op['subset'] is not None:
            p = copy.deepcopy(plan)
            p['ops'][j]['subset'] = None
            yield p
        if len(op['clusters']) > 1:
            for i in range(len(op['clusters'])):
                p = copy.deepcopy(plan)
                del p['ops'][j]['clusters'][i]
                yield p
        if op['chunks']:
            p = copy.deepcopy(plan)
            p['ops'][j]['chunks'] = False
            yield p


def validate(plan):
    cfg = plan['cfg']
    if len(cfg['times']) != len(cfg['clusters']):
        return False
    ns = len(cfg['times'])
    for op in plan['ops']:
        if op.get('subset') and any(s >= ns for s in op['subset']):
            return False
    return True


def execute(plan, ctx):
    seams.import_phylib()
    from phylib.io.array import SpikeSelector
    cfg = plan['cfg']
    scale = cfg.get('scale', 1)
    if scale != 1:
        # a grid in seconds: bounds and times are floats, bounds not whole numbers
        bounds = [b * scale for b in cfg['bounds']]
        tvals = [t * scale for t in cfg['times']]
        times = np.array(tvals, dtype=np.float64)
        ctx.probe('float_chunk_grid')
    else:
        bounds = cfg['bounds']
        tvals = cfg['times']
        times = np.array(tvals, dtype=cfg['time_dtype'])
    clusters = np.array(cfg['clusters'], dtype=np.int64)
    ns = len(times)
    spc = {}
    for i, c in enumerate(cfg['clusters']):
        spc.setdefault(c, []).append(i)

    def get_spc(cl):
        return np.array(spc.get(int(cl), []), dtype=np.int64)

    counter = {}
    with seams.installed(draw=cfg['draw'], seed=cfg['seed'], counter=counter):
        try:
            sel = ctx.real('SpikeSelector', SpikeSelector, get_spikes_per_cluster=get_spc,
                           spike_times=times, chunk_bounds=bounds, n_chunks_kept=cfg['n_kept'])
            ctx.op('build')
            kept = [float(x) for x in np.asarray(sel.chunks_kept).ravel()]
            ctx.ev('build', kept)
            n_chunks = len(bounds) - 1
            # -- chunk-grid clause
            ctx.check(len(kept) % 2 == 0 and len(kept) >= 2, 'kept-chunks-not-intervals',
                      lambda: {'kept': kept})
            pairs = list(zip(kept[0::2], kept[1::2]))
            grid = {(bounds[i], bounds[i + 1]): i for i in range(n_chunks)}
            ctx.check(all(p in grid for p in pairs), 'kept-chunk-not-a-grid-interval',
                      lambda: {'kept': pairs, 'grid': bounds})
            idx = [grid[p] for p in pairs]
            ctx.check(idx[0] == 0, 'kept-chunks-do-not-start-with-first', lambda: {'idx': idx})
            if len(idx) >= 2:
                s = idx[1] - idx[0]
                ctx.check(s >= 1 and idx == list(range(0, n_chunks, s)),
                          'kept-chunks-not-regular-stride',
                          lambda: {'idx': idx, 'n_chunks': n_chunks})
                if n_chunks % s:
                    ctx.probe('stride_not_dividing')
            else:
                s = n_chunks
            ctx.check(len(idx) <= cfg['n_kept'], 'more-chunks-kept-than-requested',
                      lambda: {'idx': idx, 'requested': cfg['n_kept']})
            if cfg['n_kept'] > n_chunks:
                ctx.probe('kept_more_than_chunks')
            on_bound = any(t in bounds for t in tvals)
            if on_bound:
                ctx.probe('spike_on_bound')
            if any(t < bounds[0] for t in tvals):
                ctx.probe('spike_before_first_bound')
            if any(a > b for a, b in zip(tvals, tvals[1:])):
                ctx.probe('spike_times_not_sorted')

            def in_kept(t):
                return any(lo <= t < hi for lo, hi in pairs)

            for step, op in enumerate(plan['ops']):
                subset = None if op['subset'] is None else np.array(op['subset'], dtype=np.int64)
                got = ctx.real('call', sel, op['n'], list(op['clusters']),
                               subset_chunks=op['chunks'], subset_spikes=subset)
                got = np.asarray(got)
                ctx.op('call', changes_state=False)
                ctx.ev(step, 'call', got)
                g = [int(x) for x in got]
                ctx.check(got.ndim == 1 and all(a < b for a, b in zip(g, g[1:])),
                          'selection-not-strictly-increasing', lambda: {'got': g})
                ctx.check(all(0 <= x < ns for x in g), 'selection-out-of-range', lambda: {'got': g})
                req = set(op['clusters'])
                if not req:
                    ctx.probe('empty_request')
                ctx.check(all(cfg['clusters'][x] in req for x in g),
                          'selected-spike-of-unrequested-cluster',
                          lambda: {'got': g, 'requested': sorted(req)})
                if op['chunks']:
                    ctx.check(all(in_kept(tvals[x]) for x in g),
                              'selected-spike-outside-kept-chunks',
                              lambda: {'got': g, 'times': [tvals[x] for x in g],
                                       'kept': pairs})
                if op['subset'] is not None:
                    sub = set(op['subset'])
                    ctx.check(all(x in sub for x in g), 'selected-spike-outside-subset',
                              lambda: {'got': g})
                    if op['chunks']:
                        ctx.probe('subset_and_chunks')
                    if len(sub) < len(op['subset']):
                        ctx.probe('subset_with_repeated_id')
                gs = set(g)
                if len(set(op['clusters'])) < len(op['clusters']):
                    ctx.probe('cluster_requested_twice')
                for cl in sorted(set(op['clusters'])):
                    members = spc.get(cl, [])
                    if not members:
                        ctx.probe('unknown_cluster')
                    elig = [i for i in members
                            if (not op['chunks'] or in_kept(tvals[i]))
                            and (op['subset'] is None or i in set(op['subset']))]
                    chosen = [i for i in elig if i in gs]
                    n = op['n']
                    if n is None or n <= 0 or len(elig) <= n:
                        if n and len(elig) == n:
                            ctx.probe('exactly_n_eligible')
                        ctx.check(chosen == elig, 'not-all-eligible-spikes-returned',
                                  lambda: {'cluster': cl, 'eligible': elig, 'chosen': chosen,
                                           'n': n, 'step': step})
                    else:
                        ctx.probe('subsampled_cluster')
                        ctx.check(len(chosen) == n, 'wrong-number-of-spikes-for-cluster',
                                  lambda: {'cluster': cl, 'eligible': len(elig),
                                           'chosen': len(chosen), 'n': n, 'step': step})
                ctx.state(min(n_chunks, 8), min(s, 6), on_bound,
                          'none' if op['n'] is None else ('zero' if op['n'] == 0 else (
                              'small' if op['n'] < 10 else 'large')),
                          any(c not in spc for c in op['clusters']), op['subset'] is not None,
                          op['chunks'], cfg['draw'])
        finally:
            for k, v in counter.items():
                ctx.fault(k, v)
