# -*- coding: utf-8 -*-
"""Self-tests of the simulator: determinism (same plan => same event log, across executions,
processes, hash seeds and worker counts) and sensitivity (known mutants must be caught)."""

import json
import os
import random
import subprocess
import sys
from pathlib import Path

from . import core, engines, seams

VERIF = core.VERIF


def _digests(props, n, tier='quick'):
    """Event-log digests of the first n runs of each property (in-process, sequential)."""
    seams.import_phylib()
    out = {}
    for prop in props:
        engine_name, engine, cfg = engines.for_prop(prop)
        for i in range(n):
            seed = core.run_seed_for(0, prop, i)
            plan = engine.gen(random.Random(seed), prop, tier)
            res = core.execute_plan(engine, plan, prop, tier)
            out['%s/%d' % (prop, i)] = [res.plan_digest, res.log_digest, res.verdict,
                                        res.signature]
    return out


def _available_props(only=None):
    props = []
    for p in sorted(engines.PROPS):
        if only and p not in only.split(','):
            continue
        try:
            engines.for_prop(p)
            props.append(p)
        except ImportError:
            continue
    return props


def determinism(n=200, only=None, quiet=False, processes=True):
    """Each run seed executed twice here, and once more in fresh interpreters under two other
    PYTHONHASHSEED values; all event-log digests must agree."""
    props = _available_props(only)
    per = max(2, n // max(1, len(props)))
    a = _digests(props, per)
    b = _digests(props, per)
    bad = [k for k in a if a[k] != b[k]]
    harness = [k for k in a if a[k][2] == 'harness_error']
    n_cmp = len(a)
    if processes:
        for hs in ('4242', '77'):
            env = dict(os.environ, PYTHONHASHSEED=hs)
            p = subprocess.run(
                [sys.executable, '-X', 'faulthandler', str(VERIF / 'vcheck.py'), '_digests',
                 ','.join(props), str(per)], capture_output=True, text=True, env=env, timeout=3000)
            if p.returncode != 0:
                print(p.stdout[-2000:], p.stderr[-2000:])
                print('HARNESS-ERROR determinism: child failed')
                return 2
            c = json.loads(p.stdout.strip().splitlines()[-1])
            bad += [k for k in a if a[k] != c.get(k)]
            n_cmp += len(a)
    # worker-count independence: the same batch under 1, 3 and 16 workers gives the same runs
    if processes:
        os.environ['PHYLIB_VERIF_COLLECT_DIGESTS'] = '1'
        try:
            for prop in [p for p in ('C10', 'C03', 'C19', 'C13') if p in props]:
                engine_name = engines.PROPS[prop]['engine']
                ref = None
                for w in ('1', '3', '16'):
                    os.environ['VERIF_WORKERS'] = w
                    b = core.run_batch(engine_name, prop, 'quick', 0, n_runs=120, resample=0)
                    d = sorted(b.digests)
                    n_cmp += len(d)
                    if ref is None:
                        ref = d
                    elif d != ref:
                        bad.append('%s/workers=%s' % (prop, w))
        finally:
            os.environ.pop('PHYLIB_VERIF_COLLECT_DIGESTS', None)
            os.environ.pop('VERIF_WORKERS', None)
    if not quiet or bad or harness:
        print('determinism: props=%s runs/prop=%d comparisons=%d divergences=%d harness_errors=%d'
              % (','.join(props), per, n_cmp, len(bad), len(harness)))
    if bad:
        print('HARNESS-ERROR nondeterministic runs: %s' % sorted(set(bad))[:10])
        return 2
    if harness:
        print('HARNESS-ERROR runs with harness errors: %s' % harness[:10])
        return 2
    return 0


def _child_digests(argv):
    props = argv[0].split(',')
    n = int(argv[1])
    print(json.dumps(_digests(props, n)))
    return 0


def sensitivity(only=None):
    from . import mutants
    return mutants.run(only=only)


def seeded(only=None):
    from . import mutants
    return mutants.run_seeded(only=only)
