# -*- coding: utf-8 -*-
"""Dataset world: a "sorter" actor writes KiloSort/phy or ALF-named dataset directories from a
seeded ground truth under a drawn configuration. The harness keeps the ground truth, so every
oracle compares phylib's view with what was actually written, never with phylib's own output."""

import hashlib
import os
from pathlib import Path

import numpy as np

# File families and their (KS name, ALF name)
NAMES = {
    'times': ('spike_times.npy', 'spikes.times.npy'),
    'stemplates': ('spike_templates.npy', 'spikes.templates.npy'),
    'sclusters': ('spike_clusters.npy', 'spikes.clusters.npy'),
    'amps': ('amplitudes.npy', 'spikes.amps.npy'),
    'chmap': ('channel_map.npy', 'channels.rawInd.npy'),
    'chpos': ('channel_positions.npy', 'channels.localCoordinates.npy'),
    'chprobe': ('channel_probe.npy', 'channels.probes.npy'),
    'chshank': ('channel_shanks.npy', 'channels.shanks.npy'),
    'tmpl': ('templates.npy', 'templates.waveforms.npy'),
    'tmplind': ('template_ind.npy', 'templates.waveformsChannels.npy'),
}


# --------------------------------------------------------------------------------------------------
# Configuration
# --------------------------------------------------------------------------------------------------

def gen_dataset_cfg(rng, flavor='general', big=False):
    """Draw a dataset configuration.

    flavor: 'general' (everything varies: C04), 'dense' (KS names, dense templates: C05..C10, C13),
            'sparse_ok' (dense or sparse templates), 'probe' (merge input).
    """
    ns = rng.randint(2, 400 if big else 120)
    if rng.random() < 0.1:
        ns = rng.randint(2, 6)
    nt = rng.randint(2, 12 if big else 8)
    nc = rng.randint(2, 24 if big else 12)
    nsw = rng.randint(2, 12)
    sr = rng.choice([100.0, 1000.0, 2500.0, 30000.0, 30000.0, 29999.954846, 32552.083])
    cfg = {
        'ns': ns, 'nt': nt, 'nc': nc, 'nsw': nsw, 'sr': sr, 'seed': rng.randint(0, 2 ** 31),
        'names': {k: 'ks' for k in NAMES},
        'colvec': [],
        'sparse': False, 'nloc_t': None,
        'present': {'sclusters': True, 'amps': True, 'wm': True, 'wmi': False, 'shanks': False,
                    'probes': False, 'features': False, 'feature_rows': False,
                    'tfeatures': False, 'tfeature_rows': False, 'similar': True, 'raw': False,
                    'attrs': False, 'reordered': False, 'samples_file': False},
        'dtypes': {'times': 'uint64', 'ids': 'uint32', 'chmap': 'int32', 'find': 'uint32',
                   'tmpl': 'float32', 'feat': 'float32'},
        'n_shanks': 1, 'n_probes': 1, 'geometry': rng.choice(['grid', 'line', 'random', 'stagger']),
        'unused_templates': [], 'curation': [], 'poison': [],
        'nloc_f': None, 'npcs': rng.choice([2, 3]), 'feature_subset': None,
        'raw': None, 'knobs': {}, 'ties': False,
    }
    p = cfg['present']
    # unused templates (incl. the highest id with a decent probability)
    if nt >= 3 and rng.random() < 0.5:
        k = rng.randint(1, max(1, nt // 3))
        unused = set(rng.sample(range(nt), k))
        if rng.random() < 0.5:
            unused.add(nt - 1)
        if len(unused) >= nt - 1:
            unused = set(list(unused)[:max(0, nt - 2)])
        cfg['unused_templates'] = sorted(unused)
    cfg['dtypes']['times'] = rng.choice(['uint64', 'int64', 'int32', 'uint32'])
    cfg['dtypes']['ids'] = rng.choice(['uint32', 'int32', 'int64', 'uint16'])
    cfg['dtypes']['chmap'] = rng.choice(['int32', 'uint32', 'int64'])
    cfg['dtypes']['find'] = rng.choice(['uint32', 'int32', 'int64'])
    cfg['dtypes']['tmpl'] = rng.choice(['float32', 'float32', 'float64'])
    cfg['dtypes']['feat'] = rng.choice(['float32', 'float32', 'float64'])
    cfg['dtypes']['amps'] = rng.choice(['float64', 'float64', 'float32', 'float16', '>f8', '>f4'])
    cfg['dtypes']['pos'] = rng.choice(['float64', 'float64', 'float32', 'int64', 'uint16', 'uint32', 'int16'])
    cfg['dtypes']['wm'] = rng.choice(['float64', 'float64', 'float32'])
    # size outliers: hidden constants (neighbourhood 12/32, uint8/int16 id ranges, batch sizes)
    # only matter beyond the usual small sizes
    r = rng.random()
    if r < 0.03:
        cfg['nc'] = nc = rng.choice([13, 33, 40, 65])
    elif r < 0.05:
        cfg['nt'] = nt = rng.choice([130, 257, 300, 300, 400])
        cfg['ns'] = ns = max(ns, 60)
        if rng.random() < 0.5:
            cfg['dtypes']['ids'] = 'uint16'    # products of ids overflow 16 bits beyond 256 ids
    elif r < 0.08:
        cfg['time_offset'] = rng.choice([2 ** 31 + 5, 2 ** 32 + 7, 2 ** 33])
    if rng.random() < 0.1:
        cfg['tmpl_scale'] = rng.choice([1e-6, 1e-5, 1e3])
    if rng.random() < 0.2:
        cfg['flat_channels'] = rng.choice([0.15, 0.4, 0.7])
    if rng.random() < 0.15:
        cfg['ks2_templates_ind'] = True
    if rng.random() < 0.12:
        cfg['tmpl_fortran'] = True
    if rng.random() < 0.2:
        cfg['filler_in_unused_columns'] = True
    if rng.random() < 0.15:
        cfg['feat_rows_perm'] = True
    for fam in ('times', 'stemplates', 'sclusters', 'amps', 'chmap'):
        if rng.random() < 0.3:
            cfg['colvec'].append(fam)
    p['amps'] = rng.random() < 0.85
    p['wm'] = rng.random() < 0.75
    p['wmi'] = p['wm'] and rng.random() < 0.3
    p['similar'] = rng.random() < 0.6
    p['shanks'] = rng.random() < 0.4
    if p['shanks']:
        cfg['n_shanks'] = rng.randint(1, 3)
    p['probes'] = rng.random() < 0.3
    if p['probes']:
        cfg['n_probes'] = rng.randint(1, 3)
    p['features'] = rng.random() < 0.6
    if p['features']:
        cfg['nloc_f'] = rng.randint(2, min(nc, 6))
        p['feature_rows'] = rng.random() < 0.3
    p['tfeatures'] = rng.random() < 0.4
    if p['tfeatures']:
        cfg['nloc_tf'] = rng.randint(2, nt)
        p['tfeature_rows'] = rng.random() < 0.3
    p['attrs'] = rng.random() < 0.3
    if p['attrs'] and rng.random() < 0.4:
        cfg['attr_names_extra'] = rng.sample(['times_sec', 'clusters_orig', 'amplitudes_uv',
                                              'templates_old', 'samples2', 'time'], 2)
    p['reordered'] = rng.random() < 0.15
    p['raw'] = rng.random() < 0.5
    if not p['raw'] and rng.random() < 0.3:
        cfg['raw_missing'] = True
    if p['raw']:
        cfg['raw'] = {'extra_channels': rng.choice([0, 0, 1, 3]),
                      'dtype': rng.choice(['int16', 'int16', 'float32', 'float64']),
                      'n_files': rng.choice([1, 1, 2]), 'ext': rng.choice(['.dat', '.bin']),
                      'naming': rng.choice(['indexed', 'indexed', 'unpadded']),
                      'offset': rng.choice([0, 0, 8]),
                      'tail': rng.randint(1, 20) if rng.random() < 0.9 else rng.choice([0, -1]),
                      'permute_map': rng.random() < 0.6}
        fmt = rng.choice(['flat', 'flat', 'flat', 'npy', 'cbin'])
        if fmt == 'cbin':
            cfg['raw'].update({'format': 'cbin', 'dtype': 'int16', 'offset': 0, 'n_files': 1,
                               'cbin_chunk': rng.choice([7, 20, 100]),
                               'n_threads': rng.randint(1, 3)})
        elif fmt == 'npy':
            cfg['raw'].update({'format': 'npy', 'offset': 0, 'n_files': 1})
    p['sclusters'] = rng.random() < 0.7
    cfg['ties'] = rng.random() < 0.3
    if flavor == 'general':
        # naming: each family may use its ALF name
        if rng.random() < 0.5:
            for fam in NAMES:
                if rng.random() < 0.5:
                    cfg['names'][fam] = 'alf'
            if cfg['names']['times'] == 'alf':
                p['samples_file'] = rng.random() < 0.5
            if rng.random() < 0.4:
                cfg['alf_label'] = rng.choice(['probe00', 'x1'])
        cfg['sparse'] = rng.random() < 0.35
        if cfg['sparse']:
            cfg['nloc_t'] = rng.randint(2, nc)
        if cfg['unused_templates'] and rng.random() < 0.4:
            cfg['poison'].append({'name': 'tmpl', 'kind': 'nan_template',
                                  'ids': cfg['unused_templates'][:2]})
        if not cfg['sparse'] and rng.random() < 0.12:
            # one channel of a template NaN over the whole waveform (a dead channel in the sorter's
            # output) while its other channels carry data
            cfg['poison'].append({'name': 'tmpl', 'kind': 'nan_column', 't': rng.randrange(nt),
                                  'ch': rng.randrange(nc),
                                  'val': rng.choice(['nan', 'nan', 'inf', '-inf'])})
        if rng.random() < 0.15 and not cfg.get('alf_label'):
            # both the KS and the ALF name of a family, with DIFFERENT contents: which one wins is
            # left open by the statement, but the answer must not depend on the listing order
            cfg['dual'] = [f for f in ('stemplates', 'amps', 'chpos', 'chmap')
                           if rng.random() < 0.5 and (f != 'amps' or p['amps'])]
        if p['attrs'] and rng.random() < 0.4:
            cfg['unreadable_attrs'] = rng.choice([['symlink'], ['dir'], ['symlink', 'dir']])
        if p['amps'] and rng.random() < 0.25:
            cfg['poison'].append({'name': 'amps', 'kind': rng.choice(['nan', 'inf', 'mixed']),
                                  'pos': sorted(rng.sample(range(ns), min(ns, rng.randint(2, 3))))})
        if p['similar'] and rng.random() < 0.2:
            cfg['poison'].append({'name': 'similar', 'kind': rng.choice(['nan', 'inf']),
                                  'pos': [rng.randrange(nt * nt)]})
        if p['attrs'] and rng.random() < 0.4:
            cfg['poison'].append({'name': 'attr', 'kind': rng.choice(['nan', 'inf', 'mixed']),
                                  'pos': sorted(rng.sample(range(ns), min(ns, rng.randint(1, 3))))})
    elif flavor == 'sparse_ok':
        cfg['sparse'] = rng.random() < 0.45
        if cfg['sparse']:
            cfg['nloc_t'] = rng.randint(2, nc)
        elif cfg['unused_templates'] and rng.random() < 0.4:
            # KiloSort leaves all-NaN templates for unused ids; the loader zeroes them
            cfg['poison'].append({'name': 'tmpl', 'kind': 'nan_template',
                                  'ids': cfg['unused_templates'][:2]})
    elif flavor == 'probe':
        cfg['colvec'] = [f for f in cfg['colvec'] if f in ('times', 'stemplates', 'amps')]
        p.update({'sclusters': True, 'amps': True, 'features': True, 'tfeatures': True,
                  'feature_rows': False, 'tfeature_rows': False, 'probes': False, 'shanks': False,
                  'attrs': False, 'reordered': False, 'raw': False})
        cfg['raw'] = None
        cfg['n_probes'] = 1
        cfg['n_shanks'] = 1
    if flavor in ('dense', 'probe'):
        cfg['sparse'] = False
    # knobs
    if rng.random() < 0.6:
        cfg['knobs']['n_closest_channels'] = rng.randint(2, 16)
    if rng.random() < 0.3:
        cfg['knobs']['amplitude_threshold'] = rng.choice([0, 0.1, 0.3, 0.5, 0.9])
    if p['raw'] and rng.random() < 0.8:
        cfg['knobs']['chunk'] = rng.choice([5, 11, 50, 200])
    return cfg


# --------------------------------------------------------------------------------------------------
# Ground truth
# --------------------------------------------------------------------------------------------------

class GT(object):
    pass


def positions(rs, nc, geometry, n_shanks=1):
    if geometry == 'line':
        pos = np.c_[np.zeros(nc), np.arange(nc) * 20.0]
    elif geometry == 'grid':
        pos = np.c_[(np.arange(nc) % 2) * 16.0, (np.arange(nc) // 2) * 20.0]
    elif geometry == 'stagger':
        pos = np.c_[(np.arange(nc) % 4) * 8.0 + (np.arange(nc) // 4 % 2) * 4.0,
                    (np.arange(nc) // 4) * 15.0 + (np.arange(nc) % 4) * 2.0]
    else:
        while True:
            pos = np.round(rs.uniform(0, 100, size=(nc, 2)) * 4) / 4.0
            if len(set(map(tuple, pos))) == nc:
                break
    return pos.astype(np.float64)


def build_gt(cfg):
    rs = np.random.RandomState(cfg['seed'] % (2 ** 32))
    g = GT()
    ns, nt, nc, nsw = cfg['ns'], cfg['nt'], cfg['nc'], cfg['nsw']
    p = cfg['present']
    g.sr = cfg['sr']
    # spike samples: sorted, with ties sometimes
    isi = rs.randint(0 if cfg['ties'] else 1, 12, size=ns)
    g.samples = np.cumsum(isi).astype(np.int64) + rs.randint(0, 8)
    if cfg.get('time_offset') and not cfg['present']['raw'] and \
            cfg['dtypes']['times'] in ('uint64', 'int64'):
        # a recording that started long ago: sample numbers beyond the 32-bit range
        g.samples = g.samples + int(cfg['time_offset'])
    g.alf_times = None
    g.alf_seconds = None
    if cfg.get('alf_clock') and cfg['names']['times'] == 'alf' and cfg['present'].get('samples_file'):
        # seconds in a synchronised session clock (offset and drift): NOT samples / rate; the
        # samples file next to them holds the sample numbers
        off, drift = cfg['alf_clock']
        g.alf_seconds = g.samples / g.sr * (1.0 + drift) + off
    if cfg.get('alf_times_f32') is not None and cfg['names']['times'] == 'alf' \
            and not cfg['present'].get('samples_file') and not cfg['present']['raw']:
        # seconds stored in single precision, possibly late in a long recording: the samples
        # recovered by rounding are then only determined up to the precision of the stored value
        g.samples = g.samples + int(cfg['alf_times_f32'])
        g.alf_times = (g.samples / g.sr).astype(np.float32)
    used = [t for t in range(nt) if t not in cfg['unused_templates']]
    g.stemplates = np.array([used[i] for i in rs.randint(0, len(used), size=ns)], dtype=np.int64)
    if cfg.get('skew'):
        # one template owns most of the spikes (more than 65535 of them in the large datasets)
        g.stemplates[rs.rand(ns) < cfg['skew']] = used[0]
    # make sure every "used" template has a spike when possible
    perm = rs.permutation(ns)
    if len(used) > 2 * ns:
        # many more templates than spikes: keep the random assignment (any id, also the highest
        # ones, may own spikes) instead of handing the spikes to the first ns templates
        pass
    else:
        for i, t in enumerate(used[:ns]):
            g.stemplates[perm[i]] = t
    g.sclusters = apply_curation(g.stemplates, g.stemplates, cfg.get('curation') or [])
    g.amps = np.round(rs.uniform(0.5, 30.0, size=ns), 3).astype(
        cfg['dtypes'].get('amps', 'float64')).astype(np.float64)
    # channels
    n_dat = nc + (cfg['raw']['extra_channels'] if cfg.get('raw') else 0)
    g.n_channels_dat = n_dat
    if cfg.get('raw') and cfg['raw'].get('permute_map'):
        g.chmap = rs.permutation(n_dat)[:nc].astype(np.int64)
    else:
        g.chmap = np.arange(nc, dtype=np.int64)
    g.pos = positions(rs, nc, cfg['geometry'])
    # real probes are millimetres long and need not start at x = 0
    g.pos = g.pos * float(cfg.get('pos_scale', 1)) + np.array([float(cfg.get('x_shift', 0)), 0.])
    pdt = cfg['dtypes'].get('pos', 'float64')
    if pdt in ('int64', 'uint16', 'uint32', 'int16'):
        ipos = np.round(g.pos * 4).astype(np.int64)     # integer coordinates (e.g. in um / 4)
        if len(set(map(tuple, ipos))) == nc and ipos.min() >= 0 and \
                ipos.max() < (30000 if pdt == 'int16' else 60000):
            g.pos = ipos.astype(np.float64)
            g.pos_dtype = pdt
    elif pdt == 'float32':
        fpos = g.pos.astype(np.float32)
        if len(set(map(tuple, fpos))) == nc:
            g.pos = fpos.astype(np.float64)
            g.pos_dtype = 'float32'
    g.shanks = (np.arange(nc) * cfg['n_shanks'] // nc).astype(np.int64)
    g.probes = (np.arange(nc) * cfg['n_probes'] // nc).astype(np.int64)
    # templates (whitened space)
    tdt = np.dtype(cfg['dtypes']['tmpl'])
    T = (rs.normal(size=(nt, nsw, nc)) * 0.05)
    for t in range(nt):
        peak = rs.randint(0, nc)
        d = np.abs(g.pos - g.pos[peak]).sum(axis=1)
        prof = np.exp(-d / 30.0) * rs.uniform(0.6, 1.4, size=nc)
        wave = rs.normal(size=nsw)
        wave[rs.randint(0, nsw)] += 3.0 * rs.choice([-1, 1])
        T[t] += wave[:, None] * prof[None, :] * rs.uniform(1.0, 5.0)
        if cfg.get('flat_channels'):
            # templates of limited support, as sorters write them: exactly zero elsewhere
            flat = rs.rand(nc) < cfg['flat_channels']
            flat[np.argmax(T[t].max(axis=0) - T[t].min(axis=0))] = False
            T[t][:, flat] = 0
    # templates in physical units (volts: peaks of 1e-5) or in raw ADC counts
    T = T * float(cfg.get('tmpl_scale', 1))
    g.templates_dense = T.astype(tdt)
    if cfg['sparse']:
        nloc = cfg['nloc_t']
        cols = np.zeros((nt, nloc), dtype=np.int64)
        data = np.zeros((nt, nsw, nloc), dtype=tdt)
        for t in range(nt):
            amp = T[t].max(axis=0) - T[t].min(axis=0)
            order = np.argsort(-amp)[:nloc]
            cols[t] = order
            data[t] = T[t][:, order]
            # unused (-1) trailing columns and signal-free columns
            k = rs.randint(0, max(1, nloc - 1))
            if k and rs.rand() < 0.5:
                cols[t, nloc - k:] = -1
                if not cfg.get('filler_in_unused_columns'):
                    data[t, :, nloc - k:] = 0
                # (else: whatever the sorter left in the padding columns stays there)
                if nloc - k >= 3 and rs.rand() < 0.4:
                    # an unused column BEFORE real channels (not only trailing padding)
                    j = rs.randint(1, nloc - k - 1) if nloc - k - 1 > 1 else 1
                    cols[t, j] = -1
                    data[t, :, j] = 0
            elif nloc >= 3 and rs.rand() < 0.4:
                j = rs.randint(1, nloc)
                data[t, :, j] = 0  # signal-free column (kept channel id)
            elif nloc >= 3 and rs.rand() < 0.3:
                # a purely negative deflection on a zero baseline: the column's maximum is exactly 0
                j = rs.randint(1, nloc)
                if cols[t, j] != -1:
                    data[t, :, j] = -np.abs(data[t, :, j])
                    data[t, ::2, j] = 0
        g.tmpl_data = data
        g.tmpl_cols = cols
    else:
        g.tmpl_data = g.templates_dense
        g.tmpl_cols = None
    g.wm = (np.eye(nc) + 0.15 * rs.normal(size=(nc, nc))) if p['wm'] else None
    if g.wm is not None and cfg['dtypes'].get('wm') == 'float32':
        g.wm = g.wm.astype(np.float32).astype(np.float64)
        g.wm_dtype = 'float32'
    g.wmi_file = None
    if p['wmi']:
        g.wmi_file = np.linalg.inv(g.wm) * (1.0 + 0.0)
    elif g.wm is None and cfg.get('wmi_only'):
        # only the INVERSE whitening matrix is there (no whitening_mat.npy)
        g.wmi_file = np.eye(nc) + 0.2 * rs.normal(size=(nc, nc))
    g.similar = np.round(rs.uniform(0, 1, size=(nt, nt)), 4) if p['similar'] else None
    # features
    if p['features']:
        nloc_f = cfg['nloc_f']
        npcs = cfg['npcs']
        fdt = np.dtype(cfg['dtypes']['feat'])
        g.pc_ind = np.zeros((nt, nloc_f), dtype=np.int64)
        for t in range(nt):
            g.pc_ind[t] = rs.permutation(nc)[:nloc_f]
        if cfg.get('feat_no_ind'):
            # no column table: column j of the store is channel j
            g.pc_ind = np.tile(np.arange(nloc_f), (nt, 1))
        if p['feature_rows']:
            k = rs.randint(2, ns + 1)
            if cfg.get('feat_rows_complete'):
                k = ns       # a row table that lists every spike
            g.feat_rows = np.sort(rs.permutation(ns)[:k]).astype(np.int64)
            if cfg.get('feat_rows_perm'):
                g.feat_rows = g.feat_rows[rs.permutation(len(g.feat_rows))]   # not increasing
        else:
            g.feat_rows = None
        nrows = ns if g.feat_rows is None else len(g.feat_rows)
        F = rs.normal(size=(nrows, npcs, nloc_f))
        # some spikes whose positive part of the first PC vanishes
        for i in range(nrows):
            if rs.rand() < 0.1:
                F[i, 0, :] = -np.abs(F[i, 0, :])
        g.pc_features = F.astype(fdt)
    else:
        g.pc_ind = g.pc_features = g.feat_rows = None
    if p['tfeatures']:
        nl = cfg['nloc_tf']
        g.tf_ind = np.zeros((nt, nl), dtype=np.int64)
        for t in range(nt):
            g.tf_ind[t] = rs.permutation(nt)[:nl]
        if cfg.get('tf_no_ind'):
            # no column table: column j of the store is template j (fewer or more columns than
            # templates: missing ones are zero, surplus ones are dropped)
            nl = cfg['tf_no_ind']
            g.tf_ind = np.tile(np.where(np.arange(nl) < nt, np.arange(nl), -1), (nt, 1))
        if p['tfeature_rows']:
            k = rs.randint(2, ns + 1)
            g.tf_rows = np.sort(rs.permutation(ns)[:k]).astype(np.int64)
        else:
            g.tf_rows = None
        nrows = ns if g.tf_rows is None else len(g.tf_rows)
        g.tfeatures = rs.normal(size=(nrows, nl)).astype(np.float32)
        for j, frac in enumerate(cfg.get('tfeat_nonfinite') or []):
            # non-finite stored values (the store is memory-mapped: they are returned as they are)
            g.tfeatures[int(frac * (nrows - 1)), j % nl] = [np.nan, np.inf, -np.inf][j % 3]
    else:
        g.tf_ind = g.tfeatures = g.tf_rows = None
    # spike attributes
    g.attrs = {}
    if p['attrs']:
        g.attrs['works'] = np.round(rs.uniform(size=ns), 4)
        g.attrs['randn'] = np.round(rs.normal(size=(ns, 2)), 4)
        for name in cfg.get('attr_names_extra') or []:
            # names that merely BEGIN like one of the files the loader reads itself
            g.attrs[name] = np.round(rs.uniform(size=ns), 3)
    g.reordered = (g.samples + rs.randint(-3, 4, size=ns)) if p['reordered'] else None
    # raw data
    g.raw = None
    if p['raw']:
        r = cfg['raw']
        n_rec = int(g.samples.max()) + 1 + r['tail']
        dt = np.dtype(r['dtype'])
        if dt.kind == 'i':
            g.raw = rs.randint(-3000, 3000, size=(n_rec, n_dat)).astype(dt)
        else:
            g.raw = np.round(rs.normal(size=(n_rec, n_dat)) * 50, 2).astype(dt)
            for j, (frac, ch) in enumerate(cfg['raw'].get('nonfinite') or []):
                # saturated / corrupt samples of a float recording, close to spikes
                i = int(g.samples[int(frac * (ns - 1))]) + (j % 3) - 1
                if 0 <= i < n_rec:
                    g.raw[i, ch % n_dat] = [np.inf, -np.inf, np.nan][j % 3]
    # poisoned values
    g.nan_templates = []
    g.nan_columns = []
    def _val(kind, j):
        if kind in ('nan', 'nan_template'):
            return np.nan
        if kind == 'mixed':   # +inf, -inf, nan, ... in one file
            return [np.inf, -np.inf, np.nan][j % 3]
        return np.inf
    for po in cfg['poison']:
        val = _val(po['kind'], 0)
        if po['name'] == 'tmpl' and po['kind'] == 'nan_column':
            if po['t'] < nt and po['ch'] < nc and not cfg['sparse'] and nc >= 2 \
                    and po['t'] not in g.nan_templates:
                g.tmpl_data = g.tmpl_data.copy()
                g.tmpl_data[po['t']][:, po['ch']] = float(po.get('val', 'nan'))
                g.nan_columns.append((po['t'], po['ch']))
        elif po['name'] == 'tmpl':
            for t in po['ids']:
                if t < nt:
                    g.tmpl_data = g.tmpl_data.copy()
                    g.tmpl_data[t] = np.nan
                    g.nan_templates.append(t)
        elif po['name'] == 'amps':
            for j, i in enumerate(po['pos']):
                if i < ns:
                    g.amps[i] = _val(po['kind'], j)
        elif po['name'] == 'similar' and g.similar is not None:
            g.similar.flat[po['pos'][0] % g.similar.size] = val
        elif po['name'] == 'attr' and 'works' in g.attrs:
            for j, i in enumerate(po['pos']):
                g.attrs['works'][i % ns] = _val(po['kind'], j)
    return g


def apply_curation(clusters, stemplates, ops):
    """Apply curation ops (pure function) to an assignment vector. Returns a new vector."""
    sc = np.array(clusters, dtype=np.int64).copy()
    for op in ops:
        k = op['k']
        ids = np.unique(sc)
        new = int(sc.max()) + 1 + int(op.get('gap', 0))
        if op.get('far'):
            new = max(new, int(op['far']))    # an id far beyond the current ones
        if k == 'merge':
            a = ids[op['a'] % len(ids)]
            b = ids[op['b'] % len(ids)]
            if a == b:
                continue
            sc[(sc == a) | (sc == b)] = new
        elif k == 'split':
            a = ids[op['a'] % len(ids)]
            idx = np.nonzero(sc == a)[0]
            if len(idx) < 2:
                continue
            cut = max(1, min(len(idx) - 1, int(len(idx) * op['frac'])))
            if op.get('interleave'):
                part = idx[::2][:max(1, len(idx) // 2)]
                rest = np.setdiff1d(idx, part)
            else:
                part, rest = idx[:cut], idx[cut:]
            sc[part] = new
            sc[rest] = new + 1
        elif k == 'reassign':
            rs = np.random.RandomState(op['seed'] % (2 ** 32))
            n = max(1, int(len(sc) * op['frac']))
            idx = rs.permutation(len(sc))[:n]
            target = ids[op['a'] % len(ids)] if not op.get('fresh') else new
            sc[idx] = target
        elif k == 'empty':
            a = ids[op['a'] % len(ids)]
            if len(ids) < 2:
                continue
            b = ids[(op['a'] + 1) % len(ids)]
            sc[sc == a] = b
        elif k == 'undo':
            sc = np.array(stemplates, dtype=np.int64).copy()
    return sc


def gen_curation_ops(rng, n):
    ops = []
    for _ in range(n):
        k = rng.choice(['merge', 'merge', 'split', 'split', 'reassign', 'empty', 'undo']
                       if rng.random() < 0.9 else ['undo'])
        op = {'k': k, 'a': rng.randint(0, 20), 'b': rng.randint(0, 20),
              'frac': rng.choice([0.1, 0.3, 0.5, 0.7]), 'seed': rng.randint(0, 2 ** 31)}
        if rng.random() < 0.2:
            op['gap'] = rng.randint(1, 3)
        if k == 'split' and rng.random() < 0.4:
            op['interleave'] = True
        if k == 'reassign' and rng.random() < 0.4:
            op['fresh'] = True
        ops.append(op)
    return ops


# --------------------------------------------------------------------------------------------------
# Writing
# --------------------------------------------------------------------------------------------------

def _name(cfg, fam):
    if cfg['names'].get(fam, 'ks') == 'ks':
        return NAMES[fam][0]
    name = NAMES[fam][1]
    label = cfg.get('alf_label')
    if label:   # ALF part name before the extension: spikes.times.probe00.npy
        stem, ext = name.rsplit('.', 1)
        name = '%s.%s.%s' % (stem, label, ext)
    return name


def _vec(cfg, fam, arr):
    if fam in (cfg.get('rowvec') or []):
        return arr.reshape((1, -1))      # a MATLAB row vector: shape (1, n)
    return arr.reshape((-1, 1)) if fam in cfg['colvec'] else arr


def write_dataset(cfg, g, d):
    """Write the dataset directory. Returns the params.py path."""
    d = Path(d)
    d.mkdir(parents=True, exist_ok=True)
    p = cfg['present']
    dts = cfg['dtypes']
    save = lambda name, arr: np.save(d / name, arr)  # noqa
    # spike times
    if cfg['names']['times'] == 'ks':
        save('spike_times.npy', _vec(cfg, 'times', g.samples.astype(dts['times'])))
    else:
        save(_name(cfg, 'times'), _vec(cfg, 'times', g.alf_seconds if g.alf_seconds is not None
                                       else (g.samples / g.sr if g.alf_times is None
                                             else g.alf_times)))
        if p.get('samples_file'):
            lab = ('.' + cfg['alf_label']) if cfg.get('alf_label') else ''
            save('spikes.samples%s.npy' % lab, g.samples.astype(dts['times']))
    save(_name(cfg, 'stemplates'), _vec(cfg, 'stemplates', g.stemplates.astype(dts['ids'])))
    if p['sclusters']:
        sc = g.sclusters
        scdt = 'int32' if dts['ids'] == 'uint16' else dts['ids']
        if dts.get('sclusters') and int(sc.max()) <= 120:
            scdt = dts['sclusters']      # a sorter that stores the assignments in 8 bits
        save(_name(cfg, 'sclusters'), _vec(cfg, 'sclusters', sc.astype(scdt)))
    if p['amps']:
        save(_name(cfg, 'amps'), _vec(cfg, 'amps', g.amps.astype(dts.get('amps', 'float64'))))
    save(_name(cfg, 'chmap'), _vec(cfg, 'chmap', g.chmap.astype(dts['chmap'])))
    save(_name(cfg, 'chpos'), g.pos.astype(getattr(g, 'pos_dtype', 'float64')))
    if p['probes']:
        save(_name(cfg, 'chprobe'), g.probes.astype(cfg['dtypes'].get('chprobe', 'int32')))
    if p['shanks']:
        save(_name(cfg, 'chshank'), g.shanks.astype('int32'))
    save(_name(cfg, 'tmpl'), np.asfortranarray(g.tmpl_data) if cfg.get('tmpl_fortran')
         else g.tmpl_data)     # (MATLAB sorters write column-major .npy files)
    if cfg['sparse']:
        save(_name(cfg, 'tmplind'), g.tmpl_cols.astype('int32'))
    if p['wm']:
        save('whitening_mat.npy', g.wm.astype(getattr(g, 'wm_dtype', 'float64')))
    if p['wmi'] or (g.wmi_file is not None and cfg.get('wmi_only')):
        save('whitening_mat_inv.npy', g.wmi_file)
    if p['similar']:
        save('similar_templates.npy', g.similar.astype('float32') if cfg['seed'] % 2 else g.similar)
    if p['features']:
        save('pc_features.npy', g.pc_features)
        if not cfg.get('feat_no_ind'):
            save('pc_feature_ind.npy', g.pc_ind.astype(dts['find']))
        if g.feat_rows is not None:
            save('pc_feature_spike_ids.npy', g.feat_rows.astype('int64'))
    if p['tfeatures']:
        save('template_features.npy', g.tfeatures)
        if not cfg.get('tf_no_ind'):
            save('template_feature_ind.npy', g.tf_ind.astype(dts['find']))
        if g.tf_rows is not None:
            save('template_feature_spike_ids.npy', g.tf_rows.astype('int64'))
    if cfg.get('ks2_templates_ind') and not cfg['sparse']:
        # KiloSort2 writes templates_ind.npy (with an s) next to its DENSE templates: trivial rows
        # 0..n_channels-1, a file the loader does not use
        save('templates_ind.npy', np.tile(np.arange(cfg['nc'], dtype=np.float64), (cfg['nt'], 1)))
    for k, v in g.attrs.items():
        save('spike_%s.npy' % k, v)
    for kind in cfg.get('unreadable_attrs') or []:
        # fault: a per-spike attribute file that cannot be read at load time
        if kind == 'symlink':
            (d / 'spike_aaa_dangling.npy').symlink_to(d / 'does_not_exist.npy')
            (d / 'spike_zzz_dangling.npy').symlink_to(d / 'does_not_exist.npy')
        else:
            (d / 'spike_mmm_isdir.npy').mkdir()
    for fam in cfg.get('dual') or []:
        other = NAMES[fam][1 if cfg['names'].get(fam, 'ks') == 'ks' else 0]
        if fam == 'stemplates':
            alt = np.roll(g.stemplates, 1).astype(dts['ids'])
        elif fam == 'amps':
            alt = g.amps + 1.0
        elif fam == 'chpos':
            alt = g.pos + 5.0
        else:
            alt = g.chmap[::-1].astype(dts['chmap'])
        save(other, alt)
    if g.attrs:
        save('spike_fail.npy', np.full(cfg['ns'] + 1, 7.0))  # wrong number of spikes
    if g.reordered is not None:
        save('spike_times_reordered.npy', g.reordered)
    dat_paths = []
    if g.raw is not None and cfg['raw'].get('format', 'flat') == 'npy':
        np.save(d / 'raw.npy', g.raw)
        dat_paths.append('raw.npy')
    elif g.raw is not None and cfg['raw'].get('format', 'flat') == 'cbin':
        import mtscomp
        tmp = d / 'raw_tmp.bin'
        tmp.write_bytes(np.ascontiguousarray(g.raw).tobytes())
        mtscomp.compress(tmp, d / 'raw.cbin', d / 'raw.ch', sample_rate=g.sr,
                         n_channels=g.raw.shape[1], dtype=g.raw.dtype,
                         chunk_duration=cfg['raw'].get('cbin_chunk', 50) / g.sr,
                         n_threads=cfg['raw'].get('n_threads', 2), check_after_compress=False,
                         quiet=True)
        tmp.unlink()
        dat_paths.append('raw.cbin')
    elif g.raw is not None:
        r = cfg['raw']
        n = g.raw.shape[0]
        # (a part with no sample at all is not a recording: a one-sample recording stays whole)
        cuts = [n] if r['n_files'] == 1 or n < 2 else [n // 2, n - n // 2]
        i = 0
        for k, m in enumerate(cuts):
            # (the listed order need not be the lexicographic order of the names)
            name = ('raw_t%d%s' % (k + 9, r['ext']) if r.get('naming') == 'unpadded'
                    else 'raw%d%s' % (k, r['ext']))
            with open(d / name, 'wb') as f:
                f.write(b'\x07' * r['offset'])
                f.write(np.ascontiguousarray(g.raw[i:i + m]).tobytes())
            i += m
            dat_paths.append(name)
            if r.get('symlinked'):
                # the raw file lives in a content-addressed store WITHOUT a file extension; the
                # dataset folder holds a symbolic link with the usual name
                store = d.parent / 'blobs'
                store.mkdir(exist_ok=True)
                target = store / ('%08x%d' % (cfg['seed'] % (2 ** 32), k))
                os.replace(str(d / name), str(target))
                (d / name).symlink_to(target)
    lines = []
    if not dat_paths and cfg.get('raw_missing'):
        # params.py still names the raw file, but it is not there (moved or deleted)
        lines.append('dat_path = %r' % 'recording_moved_away.dat')
    elif not dat_paths:
        lines.append('dat_path = []')
    elif cfg.get('dat_path_tuple'):
        lines.append('dat_path = %r' % (tuple(dat_paths),))
    elif len(dat_paths) == 1 and cfg['seed'] % 3:
        lines.append('dat_path = %r' % dat_paths[0])
    else:
        lines.append('dat_path = %r' % dat_paths)
    lines.append('n_channels_dat = %d' % g.n_channels_dat)
    lines.append('dtype = %r' % (cfg['raw']['dtype'] if cfg.get('raw') else 'int16'))
    lines.append('offset = %d' % (cfg['raw']['offset'] if cfg.get('raw') else 0))
    lines.append('sample_rate = %r' % g.sr)
    lines.append('hp_filtered = False')
    (d / 'params.py').write_text('\n'.join(lines) + '\n')
    return d / 'params.py'


# --------------------------------------------------------------------------------------------------
# Storage observation
# --------------------------------------------------------------------------------------------------

def snapshot(d):
    """name -> sha256 of every regular file below d (sorted; no mtimes, no inodes)."""
    out = {}
    d = Path(d)
    for root, dirs, files in os.walk(str(d)):
        dirs.sort()
        for f in sorted(files):
            p = Path(root) / f
            rel = str(p.relative_to(d))
            if p.is_symlink():
                out[rel] = 'symlink->' + os.path.basename(os.readlink(str(p)))
                try:    # ... and what it points to: writing THROUGH the link changes the "file"
                    out[rel] += ':' + hashlib.sha256(p.read_bytes()).hexdigest()[:24]
                except OSError:
                    pass
                continue
            out[rel] = hashlib.sha256(p.read_bytes()).hexdigest()[:24]
    return out


def diff_snapshots(before, after):
    created = sorted(set(after) - set(before))
    deleted = sorted(set(before) - set(after))
    modified = sorted(k for k in before if k in after and before[k] != after[k])
    return created, deleted, modified
