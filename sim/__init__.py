"""Deterministic simulation with fault injection for cortex-lab/phylib (see /verif/DESIGN.md)."""
