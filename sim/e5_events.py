# -*- coding: utf-8 -*-
"""E5 — event bus: many parties on one shared emitter (C19).

Real code: phylib.utils.event.EventEmitter (fresh instance or the process-global one) and
ProgressReporter. Reference model: a list of registrations, a silencing flag + context depth, and
per reporter (value, maximum, announced).
"""

import copy

from . import seams

NAME = 'E5'
EVENTS = ['a', 'b', 'progress', 'complete']
N_SENDERS = 3
N_REPORTERS = 2
MAX_DEPTH = 2  # re-entrant emits nest at most this deep

COMPONENTS = {
    'real': ['phylib.utils.event.EventEmitter (connect/unconnect/reset/silent/set_silent/emit)',
             'phylib.utils.event.ProgressReporter', 'the process-global emitter _EVENT'],
    'stub': ['callbacks, senders and listener objects are harness parties (recording stubs)'],
}
RULE = {'C19': (
    'plans = seeded histories (<= 24 ops quick, <= 40 thorough) over connect (by name / explicit '
    'event / decorator form, sender filter, last), unconnect by callback or sender, reset, '
    'set_silent, nested silent() contexts left normally or by an exception, emit (args, kwargs, '
    'single), re-entrant and raising callbacks, and progress-reporter ops on the shared global '
    'emitter; every emit is compared call by call with a list reference model. distinct = distinct '
    'plan digests; non-trivial = at least one emit/reporter clause evaluated after at least one '
    'state-changing op')}
STATE_MEASURE = ('(#registrations bucket, #last registrations, silent-context depth, set_silent flag, '
                 'per reporter: value<max / value>=max, announced?)')
ASSUMPTIONS = [
    'connect/unconnect from inside a callback during the same emit and set_silent inside a silent() '
    'block are not generated (outcome left open by the statement)',
    'when a callback raises, both propagation and swallow-and-continue are accepted; the calls made '
    'up to the raising callback are asserted either way',
    'reporter operations are not issued while the shared emitter is silenced',
]
EXPECTED_PROBES = {'C19': ['nested_silent', 'exception_in_silent', 'reentrant_emit',
                           'last_before_normal', 'single_emit', 'reporter_crossing',
                           'reset_then_cross', 'silent_under_set_silent', 'callback_raises',
                           'emit_while_silenced', 'sender_filter_excludes',
                           'unconnect_several_items', 'explicit_last_false',
                           'explicit_single_false']}


# --------------------------------------------------------------------------------------------------
# Generation
# --------------------------------------------------------------------------------------------------

def gen(rng, prop, tier):
    n_cb = rng.randint(3, 8)
    cbs = []
    # event names: also names sharing letters with the `on_` prefix of by-name connection
    EVENTS = rng.choice([['a', 'b'], ['a', 'b'], ['open', 'next'], ['n', '_x'], ['on', 'no_on_'],
                         ['select', 'on_select']]) + ['progress', 'complete']
    falsy = rng.random() < 0.3      # one sender is an empty container (falsy object)
    for i in range(n_cb):
        ev = rng.choice(EVENTS)
        cb = {'name': 'on_' + ev if rng.random() < 0.6 else 'cb%d' % i,
              'kind': rng.choice(['free', 'free', 'method']),
              'listener': rng.randint(0, 1),
              'reemit': None, 'raises_on': None}
        if rng.random() < 0.2:
            cb['reemit'] = [rng.choice(EVENTS[:2]), rng.randint(0, N_SENDERS - 1)]
        if rng.random() < 0.12:
            cb['raises_on'] = rng.randint(1, 3)
        cbs.append(cb)
    mode = rng.choice(['emitter', 'emitter', 'reporter', 'both'])
    use_global = True if mode != 'emitter' else rng.random() < 0.5
    max_ops = 24 if tier == 'quick' else 40
    n_ops = rng.randint(3, max_ops)
    ops = []
    # generator-side tracking only to bias towards interesting histories
    depth = 0
    for _ in range(n_ops):
        kinds = []
        if mode in ('emitter', 'both'):
            kinds += ['connect'] * 5 + ['emit'] * 7 + ['unconnect_cb', 'unconnect_sender', 'reset',
                                                       'set_silent', 'enter_silent', 'enter_silent',
                                                       'exit_silent', 'exit_silent']
        if mode in ('reporter', 'both'):
            kinds += ['connect'] * 2 + ['r_increment'] * 4 + ['r_set_value'] * 3 + \
                ['r_set_max'] * 2 + ['r_set_complete', 'r_reset', 'r_reset']
        k = rng.choice(kinds)
        if k == 'connect':
            i = rng.randrange(n_cb)
            named = cbs[i]['name'].startswith('on_')
            by_name = named and rng.random() < 0.6
            if mode == 'reporter' or (mode == 'both' and rng.random() < 0.5):
                event = rng.choice(['progress', 'complete'])
                sender = rng.choice([None, 'R0', 'R1'])
            else:
                event = rng.choice(EVENTS[:2] if rng.random() < 0.8 else EVENTS)
                sender = rng.choice([None, None, 'S0', 'S1', 'S2'])
            ops.append({'op': 'connect', 'cb': i, 'event': None if by_name else event,
                        'sender': sender, 'last': rng.random() < 0.25,
                        'form': rng.choice(['call', 'decorator'])})
        elif k == 'emit':
            ops.append({'op': 'emit', 'event': rng.choice(EVENTS[:2] if rng.random() < 0.85
                                                         else EVENTS),
                        'sender': 'S%d' % rng.randrange(N_SENDERS),
                        'args': [rng.randint(0, 9) for _ in range(rng.randint(0, 2))],
                        'kwargs': ({'k': rng.randint(0, 9)} if rng.random() < 0.3 else {}),
                        'single': rng.random() < 0.2})
        elif k == 'unconnect_cb':
            ops.append({'op': 'unconnect_cb',
                        'cbs': sorted(set(rng.randrange(n_cb) for _ in range(rng.randint(1, 2))))})
        elif k == 'unconnect_sender':
            if rng.random() < 0.4:
                items = [['sender', rng.choice(['S0', 'S1', 'S2', 'R0', 'R1'])]
                         for _ in range(rng.randint(1, 2))]
                items += [['cb', rng.randrange(n_cb)] for _ in range(rng.randint(0, 2))]
                rng.shuffle(items)
                ops.append({'op': 'unconnect_items', 'items': items})
            else:
                ops.append({'op': 'unconnect_sender',
                            'sender': rng.choice(['S0', 'S1', 'S2', 'R0', 'R1'])})
        elif k == 'reset':
            ops.append({'op': 'reset'})
        elif k == 'set_silent':
            ops.append({'op': 'set_silent', 'value': rng.random() < 0.5})
        elif k == 'enter_silent':
            depth += 1
            ops.append({'op': 'enter_silent'})
        elif k == 'exit_silent':
            depth = max(0, depth - 1)
            ops.append({'op': 'exit_silent', 'raises': rng.random() < 0.3})
        elif k == 'r_increment':
            ops.append({'op': 'r_increment', 'r': rng.randrange(N_REPORTERS)})
        elif k == 'r_set_value':
            ops.append({'op': 'r_set_value', 'r': rng.randrange(N_REPORTERS),
                        'v': rng.randint(0, 4)})
        elif k == 'r_set_max':
            ops.append({'op': 'r_set_max', 'r': rng.randrange(N_REPORTERS),
                        'm': rng.randint(1, 4)})
        elif k == 'r_set_complete':
            ops.append({'op': 'r_set_complete', 'r': rng.randrange(N_REPORTERS)})
        elif k == 'r_reset':
            ops.append({'op': 'r_reset', 'r': rng.randrange(N_REPORTERS),
                        'm': rng.choice([None, None, 1, 2, 3, 0])})
    return {'engine': NAME, 'cfg': {'callbacks': cbs, 'use_global': use_global,
                                    'falsy_sender': falsy,
                                    'value_sender': rng.random() < 0.3}, 'ops': ops}


def validate(plan):
    n = len(plan['cfg']['callbacks'])
    for op in plan['ops']:
        if op['op'] == 'connect' and op['cb'] >= n:
            return False
        if op['op'] == 'unconnect_cb' and any(c >= n for c in op['cbs']):
            return False
        if op['op'] == 'unconnect_items' and any(k == 'cb' and v >= n for k, v in op['items']):
            return False
    return True


def simplify(plan):
    """Candidates: plain callbacks, fresh emitter, simpler op arguments."""
    cfg = plan['cfg']
    for i, cb in enumerate(cfg['callbacks']):
        for key in ('reemit', 'raises_on'):
            if cb.get(key) is not None:
                p = copy.deepcopy(plan)
                p['cfg']['callbacks'][i][key] = None
                yield p
        if cb['kind'] != 'free':
            p = copy.deepcopy(plan)
            p['cfg']['callbacks'][i]['kind'] = 'free'
            yield p
    for j, op in enumerate(plan['ops']):
        if op['op'] == 'emit':
            if op['args'] or op['kwargs']:
                p = copy.deepcopy(plan)
                p['ops'][j]['args'] = []
                p['ops'][j]['kwargs'] = {}
                yield p
            if op['single']:
                p = copy.deepcopy(plan)
                p['ops'][j]['single'] = False
                yield p
        if op['op'] == 'connect':
            for key, simple in (('last', False), ('sender', None), ('form', 'call')):
                if op[key] != simple:
                    p = copy.deepcopy(plan)
                    p['ops'][j][key] = simple
                    yield p
        if op['op'] == 'exit_silent' and op.get('raises'):
            p = copy.deepcopy(plan)
            p['ops'][j]['raises'] = False
            yield p


# --------------------------------------------------------------------------------------------------
# Parties
# --------------------------------------------------------------------------------------------------

class Sender(object):
    def __init__(self, name):
        self.name = name

    def __repr__(self):
        return self.name


class EmptySender(Sender):
    """A sender that is a container with nothing in it: `bool(sender)` is False."""

    def __len__(self):
        return 0


class Senders(dict):
    """name -> sender object. A value-like sender (a tuple) is built afresh at every use: equal to,
    but not the same object as, the one a callback was connected with."""
    value_like = ()

    def __getitem__(self, name):
        if name in self.value_like:
            return tuple([name, len(name)])
        return dict.__getitem__(self, name)


class CallbackRaised(Exception):
    pass


class BodyRaised(Exception):
    pass


class World(object):
    """Holds the real emitter, the parties and the record of calls received."""

    def __init__(self, cfg):
        import phylib.utils.event as pev
        self.pev = pev
        self.use_global = cfg['use_global']
        if self.use_global:
            pev.reset()
            pev.set_silent(False)
            self.em = pev._EVENT
        else:
            self.em = pev.EventEmitter()
        self.senders = Senders({'S%d' % i: Sender('S%d' % i) for i in range(N_SENDERS)})
        if cfg.get('value_sender'):
            self.senders.value_like = ('S2',)
        if cfg.get('falsy_sender'):
            self.senders['S1'] = EmptySender('S1')
        self.reporters = []
        for i in range(N_REPORTERS):
            r = pev.ProgressReporter()
            self.reporters.append(r)
            self.senders['R%d' % i] = r
        self.sender_name = {id(v): k for k, v in self.senders.items()}
        self.calls = []        # recorded calls: (cb_id, sender_name, args, kwargs, ret)
        self.depth = 0         # current emit nesting depth (harness side)
        self.count = {}        # cb id -> number of calls so far
        self.cm_stack = []
        self.listeners = [type('Listener%d' % i, (object,), {})() for i in range(2)]
        self.cbs = [self._make_cb(i, c) for i, c in enumerate(cfg['callbacks'])]

    def _make_cb(self, i, c):
        world = self

        def body(sender, *args, **kwargs):
            n = world.count.get(i, 0) + 1
            world.count[i] = n
            ret = [i, n]
            world.calls.append((i, sender[0] if isinstance(sender, tuple)
                                else world.sender_name.get(id(sender), '?'), list(args),
                                dict(kwargs), ret, world.depth))
            if c['raises_on'] is not None and n == c['raises_on']:
                raise CallbackRaised(i)
            if c['reemit'] is not None and world.depth < MAX_DEPTH:
                ev, s = c['reemit']
                world.depth += 1
                try:
                    world.em.emit(ev, world.senders['S%d' % s], i)
                finally:
                    world.depth -= 1
            return ret

        if c['kind'] == 'method':
            lst = self.listeners[c['listener']]

            def meth(self_, sender, *args, **kwargs):
                return body(sender, *args, **kwargs)
            meth.__name__ = c['name']
            meth.__qualname__ = c['name']
            setattr(type(lst), 'm%d_%s' % (i, c['name']), meth)
            # Accessing the attribute twice gives two equal bound-method objects.
            return lambda: getattr(lst, 'm%d_%s' % (i, c['name']))
        f = body
        f.__name__ = c['name']
        f.__qualname__ = c['name']
        return lambda: f

    def close(self):
        # Leave every context still open, un-silence, drop all callbacks.
        if self.use_global:
            self.pev.reset()
            self.pev.set_silent(False)


class Model(object):
    """Reference model: list of registrations + silencing + reporters."""

    def __init__(self, cfg):
        self.cfg = cfg
        self.regs = []          # (event, sender_name|None, cb_id, last)
        self.flag = False
        self.depth = 0
        self.saved = []         # silenced-state on entry of each open context
        self.count = {}
        self.rep = [{'v': 0, 'm': 0, 'announced': False} for _ in range(N_REPORTERS)]

    def silenced(self):
        return self.flag or self.depth > 0

    def expected_emit(self, event, sender, args, kwargs, single, nest=0):
        """Returns (calls, ret, raised). calls: list of (cb, sender, args, kwargs, ret, nest).

        Simulates re-entrant emits and raising callbacks (propagating variant)."""
        calls = []
        if self.silenced():
            return calls, None, None
        ordered = [r for r in self.regs if not r[3]] + [r for r in self.regs if r[3]]
        rets = []
        for (e, s, cb, last) in ordered:
            if e != event or (s is not None and s != sender):
                continue
            n = self.count.get(cb, 0) + 1
            self.count[cb] = n
            ret = [cb, n]
            calls.append((cb, sender, list(args), dict(kwargs), ret, nest))
            c = self.cfg['callbacks'][cb]
            if c['raises_on'] is not None and n == c['raises_on']:
                return calls, None, cb
            if c['reemit'] is not None and nest < MAX_DEPTH:
                ev2, s2 = c['reemit']
                sub, _, raised = self.expected_emit(ev2, 'S%d' % s2, [cb], {}, False, nest + 1)
                calls.extend(sub)
                if raised is not None:
                    return calls, None, raised
            rets.append(ret)
            if single:
                return calls, ret, None
        return calls, (rets if not single else '__nomatch__'), None


# --------------------------------------------------------------------------------------------------
# Execution
# --------------------------------------------------------------------------------------------------

def execute(plan, ctx):
    seams.import_phylib()
    cfg = plan['cfg']
    w = World(cfg)
    ctx.on_cleanup(w.close)
    m = Model(cfg)
    prev_emit_idx = None
    changed_since_emit = False

    for step, op in enumerate(plan['ops']):
        k = op['op']
        if k == 'connect':
            c = cfg['callbacks'][op['cb']]
            event = op['event']
            if event is None:
                if not c['name'].startswith('on_'):
                    continue  # by-name connection needs an on_<event> name (skip: shrunk plan)
                ev_name = c['name'][3:]
            else:
                ev_name = event
            f = w.cbs[op['cb']]()
            sender = w.senders[op['sender']] if op['sender'] else None
            kw = {}
            if op['last']:
                kw['last'] = True
            elif (step + op['cb']) % 3 == 0:
                kw['last'] = False        # the flag spelled out: an ordinary registration
                ctx.probe('explicit_last_false')
            if op['form'] == 'decorator':
                dec = ctx.real('connect', w.em.connect, event=event, sender=sender, **kw)
                out = ctx.real('connect', dec, f)
            else:
                out = ctx.real('connect', w.em.connect, f, event=event, sender=sender, **kw)
            m.regs.append((ev_name, op['sender'], op['cb'], bool(op['last'])))
            ctx.op('connect')
            changed_since_emit = True
            ctx.ev(step, 'connect', op['cb'], ev_name, op['sender'], op['last'])
        elif k == 'unconnect_cb':
            fs = [w.cbs[i]() for i in op['cbs']]
            ctx.real('unconnect', w.em.unconnect, *fs)
            m.regs = [r for r in m.regs if r[2] not in op['cbs']]
            ctx.op('unconnect_cb')
            changed_since_emit = True
            ctx.ev(step, 'unconnect_cb', op['cbs'])
        elif k == 'unconnect_sender':
            ctx.real('unconnect', w.em.unconnect, w.senders[op['sender']])
            m.regs = [r for r in m.regs if r[1] != op['sender']]
            ctx.op('unconnect_sender')
            changed_since_emit = True
            ctx.ev(step, 'unconnect_sender', op['sender'])
        elif k == 'unconnect_items':
            objs = [w.senders[v] if kind == 'sender' else w.cbs[v]() for kind, v in op['items']]
            ctx.real('unconnect', w.em.unconnect, *objs)
            gone_s = set(v for kind, v in op['items'] if kind == 'sender')
            gone_c = set(v for kind, v in op['items'] if kind == 'cb')
            m.regs = [r for r in m.regs if r[1] not in gone_s and r[2] not in gone_c]
            ctx.op('unconnect_items')
            ctx.probe('unconnect_several_items')
            changed_since_emit = True
            ctx.ev(step, 'unconnect_items', op['items'])
        elif k == 'reset':
            ctx.real('reset', w.em.reset)
            m.regs = []
            ctx.op('reset')
            changed_since_emit = True
            ctx.ev(step, 'reset')
        elif k == 'set_silent':
            if m.depth > 0:
                continue  # outcome left open by the statement: not executed
            ctx.real('set_silent', w.em.set_silent, op['value'])
            m.flag = bool(op['value'])
            ctx.op('set_silent')
            ctx.ev(step, 'set_silent', op['value'])
        elif k == 'enter_silent':
            if m.depth >= 3:
                continue
            cm = ctx.real('silent', w.em.silent)
            ctx.real('silent.__enter__', cm.__enter__)
            w.cm_stack.append(cm)
            if m.depth >= 1:
                ctx.probe('nested_silent')
            if m.flag:
                ctx.probe('silent_under_set_silent')
            m.depth += 1
            ctx.op('enter_silent')
            ctx.ev(step, 'enter_silent', m.depth)
        elif k == 'exit_silent':
            if not w.cm_stack:
                continue
            cm = w.cm_stack.pop()
            if op.get('raises'):
                exc = BodyRaised()
                try:
                    swallowed = cm.__exit__(BodyRaised, exc, None)
                except BodyRaised:
                    swallowed = False
                except Exception as e:  # the real code raised something else
                    from .core import RealCodeError
                    raise RealCodeError('silent.__exit__', e, True, repr(e))
                ctx.check(not swallowed, 'silent-swallows-exception')
                ctx.probe('exception_in_silent')
                ctx.fault('body_raises')
            else:
                ctx.real('silent.__exit__', cm.__exit__, None, None, None)
            m.depth -= 1
            ctx.op('exit_silent')
            ctx.ev(step, 'exit_silent', m.depth, bool(op.get('raises')))
        elif k == 'emit':
            n0 = len(w.calls)
            m_count_before = dict(m.count)
            exp_calls, exp_ret, exp_raised = m.expected_emit(
                op['event'], op['sender'], op['args'], op['kwargs'], op['single'])
            kwargs = dict(op['kwargs'])
            if op['single']:
                kwargs['single'] = True
            elif (step + len(op['args'])) % 3 == 0:
                kwargs['single'] = False      # "no single result" spelled out
                ctx.probe('explicit_single_false')
            raised = None
            ret = None
            w.depth = 0
            try:
                ret = w.em.emit(op['event'], w.senders[op['sender']], *op['args'], **kwargs)
            except CallbackRaised as e:
                raised = e.args[0]
            except Exception as e:
                from .core import RealCodeError
                import traceback
                raise RealCodeError('emit', e, True, traceback.format_exc(limit=6))
            got = [(c[0], c[1], c[2], c[3], c[4], c[5]) for c in w.calls[n0:]]
            exp = [(c[0], c[1], c[2], c[3], c[4], c[5]) for c in exp_calls]
            ctx.op('emit', changes_state=False)
            if m.silenced():
                ctx.probe('emit_while_silenced')
                ctx.check(got == [], 'silenced-emit-calls-nothing',
                          lambda: {'step': step, 'calls': got})
            elif exp_raised is not None:
                ctx.probe('callback_raises')
                ctx.fault('callback_raises')
                # Accept propagation (calls == prefix) or swallow-and-continue (prefix matches).
                ctx.check(got[:len(exp)] == exp, 'emit-calls-before-raise',
                          lambda: {'step': step, 'expected_prefix': exp, 'got': got})
                # resynchronise the model's call counters with reality
                m.count = dict(w.count)
            else:
                ctx.check(raised is None, 'emit-raises-unexpectedly')
                ctx.check(got == exp, 'emit-calls-order-filter-args',
                          lambda: {'step': step, 'expected': exp, 'got': got})
                if op['single']:
                    ctx.probe('single_emit')
                    if exp_ret != '__nomatch__':
                        ctx.check(ret == exp_ret or (isinstance(ret, tuple) and list(ret) == exp_ret),
                                  'emit-single-returns-first-result',
                                  lambda: {'step': step, 'expected': exp_ret, 'got': ret})
                else:
                    ctx.check(ret is not None and list(ret) == exp_ret,
                              'emit-returns-results-in-call-order',
                              lambda: {'step': step, 'expected': exp_ret, 'got': ret})
                if any(c[5] > 0 for c in exp):
                    ctx.probe('reentrant_emit')
                # probes
                regs_ev = [r for r in m.regs if r[0] == op['event']]
                if any(r[3] for i, r in enumerate(regs_ev)
                       if any(not r2[3] for r2 in regs_ev[i + 1:])):
                    ctx.probe('last_before_normal')
                if any(r[1] is not None and r[1] != op['sender'] for r in regs_ev):
                    ctx.probe('sender_filter_excludes')
            if changed_since_emit and prev_emit_idx is not None:
                ctx.probe('change_between_emits')
            prev_emit_idx = step
            changed_since_emit = False
            ctx.ev(step, 'emit', op['event'], op['sender'], got, ret if raised is None else 'raised')
        elif k.startswith('r_'):
            if m.silenced() or not w.use_global:
                continue
            r = w.reporters[op['r']]
            rm = m.rep[op['r']]
            if rm.get('unknown'):
                continue
            rname = 'R%d' % op['r']
            n0 = len(w.calls)
            exp_calls = []
            w.depth = 0

            def value_update(v):
                # model of a value update
                if v < rm['m']:
                    rm['announced'] = False
                rm['v'] = v
                calls, _, raised = m.expected_emit('progress', rname, [v, rm['m']], {}, False)
                exp_calls.extend(calls)
                if raised is not None:
                    return raised
                if v >= rm['m'] and not rm['announced']:
                    calls, _, raised = m.expected_emit('complete', rname, [], {}, False)
                    exp_calls.extend(calls)
                    rm['announced'] = True
                    ctx.probe('reporter_crossing')
                    if rm.get('after_reset'):
                        ctx.probe('reset_then_cross')
                    if raised is not None:
                        return raised
                rm['after_reset'] = False
                return None

            raised_exp = None
            raised = None
            try:
                if k == 'r_increment':
                    raised_exp = value_update(rm['v'] + 1)
                    r.increment()
                elif k == 'r_set_value':
                    raised_exp = value_update(op['v'])
                    r.value = op['v']
                elif k == 'r_set_complete':
                    raised_exp = value_update(rm['m'])
                    r.set_complete()
                elif k == 'r_set_max':
                    if op['m'] > rm['m']:
                        rm['announced'] = False
                    rm['m'] = op['m']
                    r.value_max = op['m']
                elif k == 'r_reset':
                    if op['m'] is not None:
                        rm['m'] = op['m']
                        r.reset(op['m'])
                    else:
                        r.reset()
                    rm['v'] = 0
                    if rm['m'] > 0:
                        rm['announced'] = False
                        rm['after_reset'] = True
            except CallbackRaised as e:
                raised = e.args[0]
            except Exception as e:
                from .core import RealCodeError
                import traceback
                raise RealCodeError(k, e, True, traceback.format_exc(limit=6))
            got = [(c[0], c[1], c[2], c[3], c[4], c[5]) for c in w.calls[n0:]]
            exp = [(c[0], c[1], c[2], c[3], c[4], c[5]) for c in exp_calls]
            ctx.op(k)
            if raised_exp is not None or raised is not None:
                # A raising listener interrupts the reporter mid-update: the statement is silent
                # about the reporter's state afterwards. Resynchronise and stop asserting on it.
                ctx.fault('callback_raises')
                ctx.check(got[:len(exp)] == exp, 'reporter-calls-before-raise',
                          lambda: {'step': step, 'expected': exp, 'got': got})
                m.count = dict(w.count)
                rm['unknown'] = True
            else:
                ctx.check(got == exp, 'reporter-progress-complete-events',
                          lambda: {'step': step, 'op': op, 'expected': exp, 'got': got})
                ctx.check(r.value == rm['v'] and r.value_max == rm['m'], 'reporter-value-max',
                          lambda: {'step': step, 'value': r.value, 'max': r.value_max,
                                   'model': [rm['v'], rm['m']]})
            ctx.ev(step, k, op.get('r'), got)
        else:
            raise ValueError(k)
        ctx.state(min(len(m.regs), 6), sum(1 for r in m.regs if r[3]), m.depth, m.flag,
                  tuple((r['v'] >= r['m'], r['announced']) for r in m.rep))
    # close contexts still open (normal exits) so that the global emitter is left clean
    while w.cm_stack:
        cm = w.cm_stack.pop()
        try:
            cm.__exit__(None, None, None)
        except Exception:
            pass
