# -*- coding: utf-8 -*-
"""Seams: every source of nondeterminism the properties depend on, owned by the simulator.

No change to /repo is needed: each seam is a module attribute that phylib looks up at call time.
"""

import contextlib
import os
import random
import sys
import uuid as _uuid

import numpy as np


# --------------------------------------------------------------------------------------------------
# Import of phylib (NumPy-2 shim, optional alternative source tree)
# --------------------------------------------------------------------------------------------------

_IMPORTED = [False]


def import_phylib():
    """Install the two-name NumPy compatibility shim (DESIGN.md 1.3) and import phylib.io."""
    if _IMPORTED[0]:
        return
    alt = os.environ.get('PHYLIB_VERIF_REPO')
    if alt:
        sys.path.insert(0, alt)
    import numpy.lib.format as nlf
    try:
        import numpy.lib._format_impl as impl
    except ImportError:  # NumPy 1.x
        impl = nlf
    for name in ('_check_version', '_write_array_header'):
        if not hasattr(nlf, name):
            setattr(nlf, name, getattr(impl, name))
    import phylib  # noqa
    import phylib.io.model  # noqa
    import phylib.io.traces  # noqa
    import phylib.io.merge  # noqa
    import phylib.io.alf  # noqa
    import phylib.io.datasets  # noqa
    import phylib.utils.event  # noqa
    if alt:
        assert os.path.realpath(phylib.__file__).startswith(os.path.realpath(alt)), phylib.__file__
    import logging
    logging.disable(logging.CRITICAL)
    _IMPORTED[0] = True


def phylib_path():
    import phylib
    return os.path.dirname(os.path.realpath(phylib.__file__))


# --------------------------------------------------------------------------------------------------
# Directory listing order
# --------------------------------------------------------------------------------------------------

_real_scandir = os.scandir
_real_listdir = os.listdir


class _Scandir(object):
    def __init__(self, entries):
        self._it = iter(entries)

    def __iter__(self):
        return self

    def __next__(self):
        return next(self._it)

    def __enter__(self):
        return self

    def __exit__(self, *a):
        return False

    def close(self):
        pass


def _order(names, strategy, seed):
    """Order a list of names. The real enumeration order never leaks: we sort first."""
    names = sorted(names)
    if strategy == 'sorted':
        return names
    if strategy == 'reversed':
        return names[::-1]
    if strategy == 'shuffled':
        rng = random.Random('%s/%s' % (seed, '|'.join(names)))
        rng.shuffle(names)
        return names
    if strategy == 'rotated':
        k = (seed % len(names)) if names else 0
        return names[k:] + names[:k]
    raise ValueError(strategy)


def make_scandir(strategy, seed, counter=None):
    def scandir(path='.'):
        with _real_scandir(path) as it:
            entries = list(it)
        by_name = {e.name: e for e in entries}
        ordered = [by_name[n] for n in _order(list(by_name), strategy, seed)]
        if counter is not None and len(ordered) > 1:
            counter['listing:' + strategy] = counter.get('listing:' + strategy, 0) + 1
        return _Scandir(ordered)
    return scandir


def make_listdir(strategy, seed):
    def listdir(path='.'):
        return _order(_real_listdir(path), strategy, seed)
    return listdir


# --------------------------------------------------------------------------------------------------
# Random draws of the spike selector
# --------------------------------------------------------------------------------------------------

_real_choice = np.random.choice

DRAW_STRATEGIES = ('seeded', 'first', 'last', 'spread', 'seeded_rev', 'first_rev', 'last_rev')


def make_choice(strategy, seed, counter=None):
    """np.random.choice(a, k, replace=False) replaced by a simulator-chosen draw.

    Every strategy returns k distinct elements of `a`: a legal outcome of the real call.
    """
    state = {'n': 0}

    def choice(a, size=None, replace=True, p=None):
        if replace is not False or p is not None or size is None:
            return _real_choice(a, size=size, replace=replace, p=p)
        arr = np.asarray(a)
        if arr.ndim == 0:
            arr = np.arange(int(arr))
        k = int(size)
        state['n'] += 1
        if counter is not None:
            counter['draw:' + strategy] = counter.get('draw:' + strategy, 0) + 1
        base = strategy.replace('_rev', '')
        if base == 'seeded':
            rs = np.random.RandomState((seed * 1000003 + state['n']) % (2 ** 32))
            out = rs.choice(arr, k, replace=False)
        elif base == 'first':
            out = arr[:k].copy()
        elif base == 'last':
            out = arr[len(arr) - k:].copy()
        elif base == 'spread':
            idx = (np.arange(k) * len(arr)) // k
            out = arr[idx].copy()
        else:
            raise ValueError(strategy)
        if strategy.endswith('_rev'):
            out = out[::-1].copy()
        return out
    return choice


# --------------------------------------------------------------------------------------------------
# uuid4
# --------------------------------------------------------------------------------------------------

def make_uuid4(seed):
    rng = random.Random('uuid/%s' % seed)

    def uuid4():
        return _uuid.UUID(int=rng.getrandbits(128), version=4)
    return uuid4


# --------------------------------------------------------------------------------------------------
# mtscomp thread pool: real decompression code, simulated scheduling
# --------------------------------------------------------------------------------------------------

POOL_ORDERS = ('forward', 'backward', 'shuffled', 'evens_first')


class SimPool(object):
    """Stands for multiprocessing.dummy.Pool: `map` runs the tasks one at a time in an order chosen
    by the simulator and returns the results in submission order, as Pool.map does."""

    order = 'forward'
    seed = 0
    counter = None
    n_maps = 0

    def __init__(self, n=None):
        self.n = n
        self.closed = False

    def map(self, fn, iterable):
        items = list(iterable)
        idx = list(range(len(items)))
        cls = SimPool
        cls.n_maps += 1
        if cls.order == 'backward':
            idx = idx[::-1]
        elif cls.order == 'shuffled':
            random.Random('%s/%s' % (cls.seed, cls.n_maps)).shuffle(idx)
        elif cls.order == 'evens_first':
            idx = idx[::2] + idx[1::2]
        results = {}
        for i in idx:
            results[i] = fn(items[i])
        if cls.counter is not None and len(items) > 1:
            cls.counter['pool:' + cls.order] = cls.counter.get('pool:' + cls.order, 0) + 1
        return [results[i] for i in range(len(items))]

    def _order(self, n):
        idx = list(range(n))
        cls = SimPool
        cls.n_maps += 1
        if cls.order == 'backward':
            idx = idx[::-1]
        elif cls.order == 'shuffled':
            random.Random('%s/%s' % (cls.seed, cls.n_maps)).shuffle(idx)
        elif cls.order == 'evens_first':
            idx = idx[::2] + idx[1::2]
        if cls.counter is not None and n > 1:
            cls.counter['pool:' + cls.order] = cls.counter.get('pool:' + cls.order, 0) + 1
        return idx

    def imap(self, fn, iterable, chunksize=1):
        # results in submission order, like Pool.imap
        return iter(self.map(fn, iterable))

    def imap_unordered(self, fn, iterable, chunksize=1):
        # results in COMPLETION order, which is the simulator's choice
        items = list(iterable)
        for i in self._order(len(items)):
            yield fn(items[i])

    def apply_async(self, fn, args=(), kwds=None):
        value = fn(*args, **(kwds or {}))

        class _R(object):
            def get(self_, timeout=None):
                return value

            def ready(self_):
                return True
        return _R()

    def close(self):
        self.closed = True

    def join(self):
        pass

    def terminate(self):
        self.closed = True


# --------------------------------------------------------------------------------------------------
# Installation
# --------------------------------------------------------------------------------------------------

@contextlib.contextmanager
def installed(listing=None, draw=None, uuid_seed=None, pool=None, seed=0, counter=None,
              knobs=None):
    """Install the requested seams; restore everything afterwards.

    listing: strategy name or None; draw: strategy or None; pool: order or None;
    knobs: dict {'chunk_duration': float, 'n_closest_channels': int, 'amplitude_threshold': float,
                 'nsample_waveforms': int, 'cpu_count': int}
    """
    import_phylib()
    import mtscomp
    import phylib.io.traces as traces
    import phylib.io.model as model
    import phylib.io.alf as alf
    saved = []

    def patch(obj, name, value):
        saved.append((obj, name, getattr(obj, name)))
        setattr(obj, name, value)

    try:
        if listing:
            patch(os, 'scandir', make_scandir(listing, seed, counter))
            patch(os, 'listdir', make_listdir(listing, seed))
        if draw:
            patch(np.random, 'choice', make_choice(draw, seed, counter))
        if uuid_seed is not None:
            patch(_uuid, 'uuid4', make_uuid4(uuid_seed))
        if pool:
            SimPool.order = pool
            SimPool.seed = seed
            SimPool.counter = counter
            SimPool.n_maps = 0
            patch(mtscomp, 'ThreadPool', SimPool)
        knobs = knobs or {}
        if knobs.get('chunk_duration') is not None:
            patch(traces, 'DEFAULT_CHUNK_DURATION', float(knobs['chunk_duration']))
        if knobs.get('n_closest_channels') is not None:
            patch(model.TemplateModel, 'n_closest_channels', int(knobs['n_closest_channels']))
        if knobs.get('amplitude_threshold') is not None:
            patch(model.TemplateModel, 'amplitude_threshold', knobs['amplitude_threshold'])
        if knobs.get('nsample_waveforms') is not None:
            patch(alf, 'NSAMPLE_WAVEFORMS', int(knobs['nsample_waveforms']))
        if knobs.get('cpu_count') is not None:
            class _MP(object):
                @staticmethod
                def cpu_count():
                    return int(knobs['cpu_count'])
            patch(traces, 'mp', _MP)
        yield
    finally:
        for obj, name, value in reversed(saved):
            setattr(obj, name, value)
        SimPool.counter = None
