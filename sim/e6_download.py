# -*- coding: utf-8 -*-
"""E6 — download against an in-process server with network and disk faults (C20).

Real code: phylib.io.datasets.download_file (and everything below it). Stubs: requests.get /
requests.head (fake server with a scripted or seeded behaviour per request), the `open` used by
_save_stream (to inject ENOSPC on the n-th write).
"""

import contextlib
import copy
import errno
import hashlib
import io
import itertools
import os

from . import seams
from .core import RealCodeError

NAME = 'E6'
URL = 'http://sim.invalid/data/file.bin'
MIRROR = 'http://mirror.invalid/cdn/0a1b2c/file.bin'   # where a redirected download ends up

DATA_BASIC = ['good', 'corrupt', 'http404']
DATA_KINDS = ['good', 'corrupt', 'corrupt_trunc', 'corrupt_extra', 'corrupt_empty', 'http404',
              'http500', 'conn_error', 'midstream_error', 'good_keepalive']
MD5_BASIC = ['correct', 'wrong', 'missing']
MD5_KINDS = ['correct', 'correct', 'wrong', 'missing', 'conn_error', 'empty', 'with_filename',
             'wrong_truncated']
PRIORS = ['absent', 'valid', 'corrupt']
HEAD_KINDS = ['fail', 'length', 'zero', 'wrong_length', 'http405']

COMPONENTS = {
    'real': ['phylib.io.datasets.download_file, _download, _save_stream, _check_md5_of_url, _md5',
             'phylib.utils.event.ProgressReporter (driven by the download)',
             'kernel file system (target file under a per-run scratch directory)'],
    'stub': ['requests.get / requests.head: in-process fake server, one scripted response per '
             'request', 'open() inside phylib.io.datasets: pass-through wrapper that can raise '
             'ENOSPC on the n-th write'],
}
ENUMERATED_SPACE = ('all data-URL scripts of length <= 3 over {good, corrupt, http404} x checksum '
                    '{correct, wrong, missing} x prior file {absent, valid, corrupt} = 351 scenarios; '
                    'thorough tier: additionally all scripts of length <= 3 over the 10 rich data '
                    'response kinds x 7 checksum kinds x 3 prior states (22 959 more scenarios)')
RULE = {'C20': (
    'quick first executes the statement\'s own space completely (' + ENUMERATED_SPACE + '), then '
    'seeded scenarios over the richer fault alphabet (truncated / extended / empty bodies, HTTP '
    '500, connection error, reset mid-stream, keep-alive chunks, checksum endpoint wrong / 404 / '
    'connection error / empty / with trailing file name, HEAD variants, chunk sizes, ENOSPC on the '
    'n-th write, two calls in a row on the same target). distinct = distinct plan digests; '
    'non-trivial = at least one request reached the fake server and one clause was evaluated')}
STATE_MEASURE = '(prior file state, checksum kinds seen, data response kinds seen, outcome class)'
ASSUMPTIONS = [
    '"checksum available" is read as: every checksum request made during the call was answered '
    'with the same published checksum; when some checksum request failed only the HTTP-error and '
    'request-count clauses are asserted',
    'only the number of data requests is asserted; checksum and HEAD request counts are logged',
]
EXPECTED_PROBES = {'C20': ['retry_taken', 'retry_succeeds', 'persistent_mismatch', 'valid_skip',
                           'http_error', 'midstream_error', 'disk_full', 'corrupt_then_good',
                           'second_call', 'bitrot_same_size_and_mtime',
                           'body_of_one_mebibyte_or_more']}


# --------------------------------------------------------------------------------------------------
# Generation
# --------------------------------------------------------------------------------------------------

def _call(data, md5, head='fail', chunk=1024, disk=None):
    return {'op': 'download', 'data': list(data), 'md5': list(md5), 'head': head,
            'chunk': chunk, 'disk_fault': disk}


def enumerate_plans(prop, tier):
    """quick: the statement's own space, completely. thorough: additionally every data script of
    length <= 3 over the rich response alphabet x every checksum kind x prior state."""
    plans = []
    for prior in PRIORS:
        for md5 in MD5_BASIC:
            for n in (1, 2, 3):
                for script in itertools.product(DATA_BASIC, repeat=n):
                    plans.append({'engine': NAME,
                                  'cfg': {'prior': prior, 'body_len': 3000, 'body_seed': 1},
                                  'ops': [_call(script, [md5])]})
    if tier == 'thorough':
        md5_kinds = sorted(set(MD5_KINDS))
        for prior in PRIORS:
            for md5 in md5_kinds:
                for n in (1, 2, 3):
                    for script in itertools.product(DATA_KINDS, repeat=n):
                        if set(script) <= set(DATA_BASIC) and md5 in MD5_BASIC:
                            continue  # already in the basic part
                        plans.append({'engine': NAME,
                                      'cfg': {'prior': prior, 'body_len': 1500, 'body_seed': 2},
                                      'ops': [_call(script, [md5], chunk=256)]})
    return plans


def gen(rng, prop, tier):
    rich = rng.random() < 0.75
    dk = DATA_KINDS if rich else DATA_BASIC
    mk = MD5_KINDS if rich else MD5_BASIC
    cfg = {'prior': rng.choice(PRIORS),
           'body_len': rng.choice([0, 1, 7, 100, 1024, 1025, 3000, 5000]) if rich else 3000,
           'big_body': None,
           'body_seed': rng.randint(1, 1000)}
    if rich and rng.random() < 0.01:
        # the checksum is computed in blocks of 1 MiB: bodies around that size
        cfg['body_len'] = rng.choice([2 ** 20 - 1, 2 ** 20, 2 ** 20 + 4096, 2 ** 21 + 5])
    ops = []
    for _ in range(1 if rng.random() < 0.6 else rng.randint(2, 3)):
        if ops and rng.random() < 0.5:
            # disk fault between two calls: the target is damaged in place
            ops.append({'op': 'bitrot', 'keep_mtime': rng.random() < 0.7,
                        'keep_size': rng.random() < 0.8})
        data = [rng.choice(dk) for _ in range(rng.randint(1, 4))]
        if rng.random() < 0.35:
            # bias: corrupted first transfer followed by a good retry
            data = [rng.choice(['corrupt', 'corrupt_trunc', 'corrupt_extra', 'corrupt_empty']),
                    rng.choice(['good', 'good', 'corrupt', 'http404'])]
        md5 = [rng.choice(mk) for _ in range(rng.randint(1, 3))]
        if rng.random() < 0.5:
            md5 = [rng.choice(['correct', 'correct', 'with_filename', 'wrong', 'wrong_truncated'])]
        disk = None
        if rich and rng.random() < 0.15:
            disk = rng.randint(1, 6)
        ops.append(_call(data, md5, head=rng.choice(HEAD_KINDS),
                         chunk=rng.choice([1, 7, 16, 64, 1024, 4096]), disk=disk))
        if rich and rng.random() < 0.15:
            ops[-1]['redirect'] = True   # the data URL redirects to a mirror without .md5 files
    return {'engine': NAME, 'cfg': cfg, 'ops': ops}


def simplify(plan):
    for j, op in enumerate(plan['ops']):
        if op['op'] != 'download':
            continue
        for key, simple in (('head', 'fail'), ('chunk', 1024), ('disk_fault', None)):
            if op[key] != simple:
                p = copy.deepcopy(plan)
                p['ops'][j][key] = simple
                yield p
        for key in ('data', 'md5'):
            if len(op[key]) > 1:
                for i in range(len(op[key])):
                    p = copy.deepcopy(plan)
                    del p['ops'][j][key][i]
                    yield p
        for i, kind in enumerate(op['data']):
            simple = 'corrupt' if kind.startswith('corrupt') else (
                'good' if kind.startswith('good') else 'http404')
            if kind != simple:
                p = copy.deepcopy(plan)
                p['ops'][j]['data'][i] = simple
                yield p
    if plan['cfg']['body_len'] != 3000:
        p = copy.deepcopy(plan)
        p['cfg']['body_len'] = 3000
        yield p
    if plan['cfg']['prior'] != 'absent':
        p = copy.deepcopy(plan)
        p['cfg']['prior'] = 'absent'
        yield p


# --------------------------------------------------------------------------------------------------
# Fake server
# --------------------------------------------------------------------------------------------------

class SimConnectionError(IOError):
    pass


class SimHTTPError(IOError):
    pass


class SimStreamReset(IOError):
    pass


def _body(n, seed):
    import random
    if n > 100000:
        import numpy as np
        return np.random.RandomState((seed * 7919 + n) % (2 ** 32)).bytes(n)
    r = random.Random('body/%s/%s' % (n, seed))
    return bytes(r.getrandbits(8) for _ in range(n))


def _corrupt(body, kind):
    if kind == 'corrupt':
        if not body:
            return b'\x00'
        i = len(body) // 2
        return body[:i] + bytes([body[i] ^ 0x40]) + body[i + 1:]
    if kind == 'corrupt_trunc':
        return body[:len(body) // 2] if len(body) > 1 else body + b'x'
    if kind == 'corrupt_extra':
        return body + b'extra'
    if kind == 'corrupt_empty':
        return b'' if body else b'x'
    raise ValueError(kind)


class Response(object):
    def __init__(self, url, status=200, body=b'', text=None, chunk=1024, keepalive=False,
                 reset_after=None, headers=None):
        self.url = url
        self.status_code = status
        self._body = body
        self.text = text if text is not None else body.decode('latin1')
        self._chunk = chunk
        self._keepalive = keepalive
        self._reset_after = reset_after
        self.headers = headers or {}

    def close(self):
        pass

    def __enter__(self):
        return self

    def __exit__(self, *a):
        return False

    def raise_for_status(self):
        if self.status_code >= 400:
            raise SimHTTPError('%d for url %s' % (self.status_code, self.url))

    def iter_content(self, chunk_size=1):
        size = max(1, min(chunk_size or 1, self._chunk))
        n = 0
        for i in range(0, len(self._body), size):
            if self._reset_after is not None and n >= self._reset_after:
                raise SimStreamReset('connection reset mid-stream')
            if self._keepalive and n % 2 == 0:
                yield b''
            yield self._body[i:i + size]
            n += 1
        if self._reset_after is not None and n <= self._reset_after:
            raise SimStreamReset('connection reset mid-stream')


class Server(object):
    def __init__(self, good, published_ok, published_wrong):
        self.good = good
        self.p_ok = published_ok
        self.p_wrong = published_wrong
        self.requests = []     # (method, which, kind)
        self.data_served = []  # bodies actually offered, in order (None for errors)
        self.md5_answers = []  # published checksum per md5 request, None when unavailable
        self.script = None

    def begin(self, op):
        self.script = {'data': list(op['data']), 'md5': list(op['md5']), 'head': op['head'],
                       'chunk': op['chunk'], 'redirect': bool(op.get('redirect'))}
        self.requests = []
        self.data_served = []
        self.md5_answers = []

    def _next(self, which):
        s = self.script[which]
        return s.pop(0) if len(s) > 1 else s[0]

    def get(self, url, stream=None, **kw):
        if url.endswith('.md5') and not url.startswith(URL):
            # a checksum asked for next to the REDIRECTED location: the mirror publishes none
            self.requests.append(('GET', 'md5_at_mirror', 'missing'))
            return Response(url, status=404, text='Not found')
        if url.endswith('.md5'):
            kind = self._next('md5')
            self.requests.append(('GET', 'md5', kind))
            if kind == 'conn_error':
                self.md5_answers.append(None)
                raise SimConnectionError('connection refused')
            if kind == 'missing':
                self.md5_answers.append(None)
                return Response(url, status=404, text='Not found')
            if kind == 'empty':
                self.md5_answers.append(None)
                return Response(url, text='')
            if kind == 'correct':
                self.md5_answers.append(self.p_ok)
                return Response(url, text=self.p_ok)
            if kind == 'with_filename':
                self.md5_answers.append(self.p_ok)
                # the formats md5sum writes: text mode (two spaces), binary mode (' *'), and a
                # hand-written single space
                tail = ['  file.bin\n', ' *file.bin\n', ' file.bin', '  my data file.bin\n'][
                    (int(self.script.get('chunk') or 0) + len(self.requests)) % 4]
                return Response(url, text=self.p_ok + tail)
            if kind == 'wrong':
                self.md5_answers.append(self.p_wrong)
                return Response(url, text=self.p_wrong)
            if kind == 'wrong_truncated':
                # a served but damaged checksum file (one hex digit missing): published, and wrong
                self.md5_answers.append(self.p_ok[:-1])
                return Response(url, text=self.p_ok[:-1])
            raise ValueError(kind)
        kind = self._next('data')
        self.requests.append(('GET', 'data', kind))
        chunk = self.script['chunk']
        if self.script.get('redirect'):
            url = MIRROR      # the response's final URL after an HTTP redirect
        if kind == 'conn_error':
            self.data_served.append(None)
            raise SimConnectionError('connection refused')
        if kind in ('http404', 'http500'):
            self.data_served.append(None)
            return Response(url, status=int(kind[4:]), text='error')
        if kind == 'good':
            self.data_served.append(self.good)
            return Response(url, body=self.good, chunk=chunk)
        if kind == 'good_keepalive':
            self.data_served.append(self.good)
            return Response(url, body=self.good, chunk=chunk, keepalive=True)
        if kind == 'midstream_error':
            self.data_served.append(None)
            return Response(url, body=self.good, chunk=chunk, reset_after=1)
        body = _corrupt(self.good, kind)
        self.data_served.append(body)
        return Response(url, body=body, chunk=chunk)

    def head(self, url, **kw):
        kind = self.script['head']
        self.requests.append(('HEAD', 'data', kind))
        if kind == 'fail':
            raise SimConnectionError('HEAD failed')
        if kind == 'http405':
            # a server that does not implement HEAD
            return Response(url, status=405, text='Method Not Allowed')
        n = {'length': len(self.good), 'zero': 0, 'wrong_length': len(self.good) // 3 + 1}[kind]
        return Response(url, headers={'content-length': str(n)})


class DiskFull(object):
    """open() replacement for phylib.io.datasets: the n-th write to a 'wb' file raises ENOSPC."""
    def __init__(self, nth):
        self.nth = nth
        self.count = 0
        self.fired = False

    def __call__(self, path, mode='r', *a, **k):
        f = io.open(path, mode, *a, **k)
        if 'w' not in mode or self.nth is None:
            return f
        disk = self

        class W(object):
            def __enter__(self_):
                return self_

            def __exit__(self_, *exc):
                f.close()
                return False

            def write(self_, data):
                disk.count += 1
                if disk.count == disk.nth:
                    disk.fired = True
                    f.write(data[:len(data) // 2])
                    f.flush()
                    raise OSError(errno.ENOSPC, 'No space left on device')
                return f.write(data)

            def flush(self_):
                return f.flush()

            def close(self_):
                return f.close()
        return W()


def _md5(b):
    return hashlib.md5(b).hexdigest()


# --------------------------------------------------------------------------------------------------
# Execution
# --------------------------------------------------------------------------------------------------

def execute(plan, ctx):
    seams.import_phylib()
    import requests
    import phylib.io.datasets as ds
    import phylib.utils.event as pev

    cfg = plan['cfg']
    good = _body(cfg['body_len'], cfg['body_seed'])
    p_ok = _md5(good)
    p_wrong = _md5(good + b'!')
    server = Server(good, p_ok, p_wrong)
    path = ctx.scratch() / 'target.bin'
    if cfg['prior'] == 'valid':
        path.write_bytes(good)
    elif cfg['prior'] == 'corrupt':
        path.write_bytes(_corrupt(good, 'corrupt'))

    saved = (requests.get, requests.head)
    requests.get, requests.head = server.get, server.head
    had_open = 'open' in ds.__dict__
    old_open = ds.__dict__.get('open')

    def restore():
        requests.get, requests.head = saved
        if had_open:
            ds.open = old_open
        elif 'open' in ds.__dict__:
            del ds.open
        pev.reset()
        pev.set_silent(False)
    ctx.on_cleanup(restore)
    pev.reset()
    pev.set_silent(False)

    for step, op in enumerate(plan['ops']):
        if op['op'] == 'download' and cfg['body_len'] > 100000 and op['chunk'] < 1024:
            op = dict(op, chunk=1024)
        if op['op'] == 'bitrot':
            if path.exists() and path.stat().st_size > 0:
                st = path.stat()
                data = bytearray(path.read_bytes())
                data[len(data) // 3] ^= 0x01
                if not op.get('keep_size'):
                    data += b'!'
                path.write_bytes(bytes(data))
                if op.get('keep_mtime'):
                    os.utime(path, ns=(st.st_atime_ns, st.st_mtime_ns))
                ctx.fault('bitrot_between_calls')
                ctx.probe('bitrot_same_size_and_mtime' if op.get('keep_mtime')
                          and op.get('keep_size') else 'bitrot')
                ctx.op('bitrot')
                ctx.ev(step, 'bitrot')
            continue
        server.begin(op)
        prior_bytes = path.read_bytes() if path.exists() else None
        disk = DiskFull(op['disk_fault'])
        ds.open = disk
        raised = None
        sink = io.StringIO()
        try:
            with contextlib.redirect_stdout(sink):
                ds.download_file(URL, path)
        except Exception as e:
            # "raises instead of returning": the statement does not fix the exception type
            raised = e
        finally:
            pev.reset()
        if step > 0:
            ctx.probe('second_call')
        ctx.op('download')
        if cfg['body_len'] >= 2 ** 20 - 1:
            ctx.probe('body_of_one_mebibyte_or_more')
        final = path.read_bytes() if path.exists() else None
        data_reqs = [r for r in server.requests if r[1] == 'data' and r[0] == 'GET']
        md5_reqs = [r for r in server.requests if r[1] == 'md5']
        n_data = len(data_reqs)
        answers = server.md5_answers
        # what the script WOULD have answered had a checksum been requested
        uniform = set(op['md5'])
        # the checksum is available for the whole call when the server publishes one and the same
        # checksum throughout (whether or not the call asked for it, and wherever it asked), or
        # when every request the call made was answered with the same published checksum
        script_pub = server.p_ok if uniform <= {'correct', 'with_filename'} else (
            server.p_wrong if uniform == {'wrong'} else (
                server.p_ok[:-1] if uniform == {'wrong_truncated'} else None))
        available = script_pub is not None or (
            len(answers) >= 1 and all(a is not None for a in answers) and len(set(answers)) == 1)
        published = script_pub if script_pub is not None else (answers[0] if available else None)
        if op.get('redirect'):
            ctx.probe('redirected_download')
        ctx.ev(step, 'download', [r[2] for r in server.requests],
               type(raised).__name__ if raised else 'returned',
               _md5(final) if final is not None else None)
        if disk.fired:
            ctx.fault('disk_full')
            ctx.probe('disk_full')
        for r in data_reqs:
            if r[2] != 'good':
                ctx.fault('data:' + r[2])
        for r in md5_reqs:
            if r[2] != 'correct':
                ctx.fault('md5:' + r[2])

        # C1: returned normally while the checksum is available => file matches the published one
        if raised is None and available:
            ctx.check(final is not None and _md5(final) == published,
                      'returned-normally-with-mismatching-file',
                      lambda: {'step': step, 'requests': server.requests,
                               'final_md5': _md5(final) if final is not None else None,
                               'published': published})
        # C3: bounded retry
        ctx.check(n_data <= 2, 'more-than-one-retry',
                  lambda: {'step': step, 'requests': server.requests})
        # C2: a valid existing file is not downloaded again
        prior_valid = prior_bytes is not None and uniform <= {'correct', 'with_filename'} \
            and _md5(prior_bytes) == p_ok
        if prior_valid:
            ctx.probe('valid_skip')
            ctx.check(n_data == 0 and raised is None and final == prior_bytes,
                      'valid-file-downloaded-again',
                      lambda: {'step': step, 'requests': server.requests,
                               'raised': repr(raised)})
        # C6: an HTTP error on a data request raises
        if any(r[2] in ('http404', 'http500') for r in data_reqs):
            ctx.probe('http_error')
            ctx.check(raised is not None, 'http-error-returns-normally',
                      lambda: {'step': step, 'requests': server.requests})
        if any(r[2] == 'midstream_error' for r in data_reqs):
            ctx.probe('midstream_error')
        # C4/C5/C7: retry logic, asserted when the checksum was available for the whole call and
        # no fault outside the statement's alphabet interfered.
        clean = not disk.fired and all(
            r[2] in ('good', 'good_keepalive', 'http404', 'http500') or r[2].startswith('corrupt')
            for r in data_reqs)
        if available and clean and not prior_valid and n_data >= 1:
            served = server.data_served
            first = served[0]
            if first is not None and _md5(first) != published:
                ctx.probe('retry_taken')
                ctx.check(n_data == 2, 'mismatch-without-exactly-one-retry',
                          lambda: {'step': step, 'requests': server.requests})
                if n_data == 2:
                    second = served[1]
                    if second is not None and _md5(second) != published:
                        ctx.probe('persistent_mismatch')
                        ctx.check(raised is not None, 'persistent-mismatch-returns-normally',
                                  lambda: {'step': step, 'requests': server.requests})
                    elif second is not None:
                        ctx.probe('retry_succeeds')
                        if first is not None:
                            ctx.probe('corrupt_then_good')
                        ctx.check(raised is None and final == second,
                                  'good-retry-not-accepted',
                                  lambda: {'step': step, 'requests': server.requests,
                                           'raised': repr(raised)})
            elif first is not None:
                ctx.check(n_data == 1 and raised is None and final == first,
                          'matching-download-not-accepted',
                          lambda: {'step': step, 'requests': server.requests,
                                   'raised': repr(raised)})
        outcome = 'raised' if raised is not None else 'returned'
        ctx.state(cfg['prior'] if step == 0 else 'later', tuple(sorted(set(r[2] for r in md5_reqs))),
                  tuple(r[2] for r in data_reqs), outcome)
