# -*- coding: utf-8 -*-
"""Reference models, written independently of phylib in plain NumPy over the ground truth the
harness wrote itself. 'Same interface, trivial inside.'"""

import numpy as np


def scrub(a):
    a = np.array(a, dtype=np.float64 if np.asarray(a).dtype.kind != 'f' else None, copy=True)
    a[~np.isfinite(a)] = 0
    return a


def close(a, b, rtol=1e-5, atol_scale=None):
    """Float comparison with a tolerance tied to the magnitude of the operands."""
    a = np.asarray(a, dtype=np.float64)
    b = np.asarray(b, dtype=np.float64)
    if a.shape != b.shape:
        return False
    if a.size == 0:
        return True
    scale = atol_scale if atol_scale is not None else max(
        float(np.nanmax(np.abs(a))) if np.isfinite(a).any() else 0.0,
        float(np.nanmax(np.abs(b))) if np.isfinite(b).any() else 0.0, 1e-300)
    na, nb = np.isnan(a), np.isnan(b)
    if not np.array_equal(na, nb):
        return False
    d = np.abs(np.where(na, 0, a) - np.where(nb, 0, b))
    return bool(np.all(d <= rtol * scale))


def ptp(x, axis=0):
    return x.max(axis=axis) - x.min(axis=axis)


class DatasetRef(object):
    """Reference view of a written dataset (ground truth g, configuration cfg)."""

    def __init__(self, cfg, g, n_closest=12, threshold=0):
        self.cfg = cfg
        self.g = g
        self.n_closest = n_closest
        self.threshold = threshold
        nc = cfg['nc']
        self.wm = g.wm if g.wm is not None else np.eye(nc)
        self.wmi = g.wmi_file if g.wmi_file is not None else np.linalg.inv(self.wm)
        self.shanks = g.shanks if cfg['present']['shanks'] else np.zeros(nc, dtype=np.int64)
        self.probes = g.probes if cfg['present']['probes'] else np.zeros(nc, dtype=np.int64)

    # ---- templates (C05) -------------------------------------------------------------------
    def template_full(self, t, unwhiten=True):
        """Dense storage: (nsw, nc) float64 reference of the (optionally unwhitened) template."""
        T = np.asarray(self.g.tmpl_data[t], dtype=np.float64)
        if unwhiten:
            return T @ self.wmi
        return T

    def nearest(self, peak):
        """(sure, optional) channel sets among the n_closest nearest of `peak` (tie tolerant)."""
        pos = self.g.pos
        d = ((pos - pos[peak]) ** 2).sum(axis=1)
        k = self.n_closest
        nc = len(d)
        if not k or k >= nc:
            return set(range(nc)), set()
        ds = np.sort(d)
        dk = ds[k - 1]
        eps = 1e-9 * max(1.0, float(ds[-1]))
        sure = set(int(i) for i in np.nonzero(d < dk - eps)[0])
        tie = set(int(i) for i in np.nonzero(np.abs(d - dk) <= eps)[0])
        if len(sure) + len(tie) == k:
            return sure | tie, set()
        return sure, tie

    def dense_channel_sets(self, t, unwhiten=True, threshold=None):
        """(sure, optional, amp, peak_candidates) for the dense auto channel list."""
        thr = self.threshold if threshold is None else threshold
        W = self.template_full(t, unwhiten)
        amp = ptp(W, axis=0)
        if np.isnan(amp).any():
            # a channel that is NaN in the template has no amplitude: it is never listed and
            # cannot be the peak
            amp = np.where(np.isnan(amp), -np.inf, amp)
        mx = float(amp.max())
        tol = 1e-5 * max(mx, 1e-300)
        peaks = [int(i) for i in np.nonzero(amp >= mx - tol)[0]]
        if len(peaks) != 1:
            return None  # ambiguous peak: the statement leaves the choice open
        peak = peaks[0]
        near_sure, near_opt = self.nearest(peak)
        sure, opt = set(), set()
        for ch in range(len(amp)):
            if self.shanks[ch] != self.shanks[peak]:
                continue
            if ch not in near_sure and ch not in near_opt:
                continue
            band = 1e-5 * max(mx, 1e-300)
            if amp[ch] < thr * mx - band:
                continue
            borderline = abs(amp[ch] - thr * mx) <= band and thr > 0
            if ch in near_sure and not borderline:
                sure.add(ch)
            else:
                opt.add(ch)
        return sure, opt, amp, peak

    def sparse_template(self, t, unwhiten=True):
        """Sparse storage: (channels kept, waveform (nsw, k) float64)."""
        data = np.asarray(self.g.tmpl_data[t], dtype=np.float64)
        cols = self.g.tmpl_cols[t]
        mx = np.abs(data).max(axis=0)
        keep = [j for j in range(len(cols)) if cols[j] != -1 and mx[j] > 0]
        ch = [int(cols[j]) for j in keep]
        W = data[:, keep]
        if unwhiten and len(ch):
            W = W @ self.wmi[np.ix_(ch, ch)]
        return ch, W

    # ---- clusters (C08) --------------------------------------------------------------------
    def merge_map(self, sc):
        st = self.g.stemplates
        out = {}
        for c in range(int(sc.max()) + 1):
            out[c] = sorted(set(int(t) for t in st[sc == c]))
        return out

    # ---- summaries (C09) -------------------------------------------------------------------
    def amplitude_chain(self, data, ids, amps, factor):
        """data: (n, nsw, nc) stored waveforms; ids: per-spike id; returns (spike_amps, means,
        peak p-p of each unwhitened waveform)."""
        n = data.shape[0]
        au = np.zeros(n)
        for k in range(n):
            au[k] = ptp(np.asarray(data[k], dtype=np.float64) @ self.wmi, axis=0).max()
        sa = au[ids] * amps
        means = np.full(n, np.nan)
        for k in range(n):
            m = ids == k
            if m.any():
                means[k] = sa[m].mean()
        return sa * factor, means * factor, au

    def depths(self):
        """Feature-weighted depth per spike: sum(y * f^2) / sum(f^2), f = max(first PC, 0)."""
        g = self.g
        f = np.maximum(np.asarray(g.pc_features[:, 0, :]), 0)
        f = (f ** 2).astype(np.float64)                      # (ns, nloc)
        ch = np.asarray(g.pc_ind)[np.asarray(g.stemplates)]  # (ns, nloc)
        y = g.pos[:, 1][ch]
        den = f.sum(axis=1)
        out = np.full(len(den), np.nan)
        ok = den > 0
        out[ok] = (y[ok] * f[ok]).sum(axis=1) / den[ok]
        return out

    # ---- features (C06) --------------------------------------------------------------------
    def features(self, spike_ids, channel_ids):
        """(values, asserted mask) of get_features for a feature file store."""
        g = self.g
        npcs = g.pc_features.shape[1]
        out = np.zeros((len(spike_ids), len(channel_ids), npcs))
        mask = np.zeros(len(spike_ids), dtype=bool)
        row_of = None
        if g.feat_rows is not None:
            row_of = {int(s): i for i, s in enumerate(g.feat_rows)}
        for a, s in enumerate(spike_ids):
            s = int(s)
            r = s if row_of is None else row_of.get(s)
            if r is None:
                continue
            mask[a] = True
            cols = g.pc_ind[g.stemplates[s]]
            for b, ch in enumerate(channel_ids):
                for j, cj in enumerate(cols):
                    if int(cj) == int(ch):
                        out[a, b, :] = g.pc_features[r, :, j]
        return out, mask

    def template_features(self, spike_ids):
        g = self.g
        nt = self.cfg['nt']
        out = np.zeros((len(spike_ids), nt))
        row_of = None
        if g.tf_rows is not None:
            row_of = {int(s): i for i, s in enumerate(g.tf_rows)}
        for a, s in enumerate(spike_ids):
            s = int(s)
            r = s if row_of is None else row_of[s]
            cols = g.tf_ind[g.stemplates[s]]
            for j, k in enumerate(cols):
                if int(k) >= 0:
                    out[a, int(k)] = g.tfeatures[r, j]
        return out


def reference_cluster_waveforms(R, sc, stemplates, T, nsw, nc):
    """Cluster waveforms by the statement of C08, from the ground truth: returns
    (candidates, ambiguous) where candidates[c] is a list of admissible (nsw, nc) arrays (several
    when spike counts tie: any tied template may be the dominant one) and ambiguous is the set of
    cluster ids whose channel lists cannot be decided (distance ties, threshold hit exactly)."""
    sc = np.asarray(sc)
    stemplates = np.asarray(stemplates)
    nmax = int(sc.max()) + 1
    cands = {}
    ambiguous = set()
    for c in range(nmax):
        tids = sorted(set(int(t) for t in stemplates[sc == c]))
        if not tids:
            cands[c] = [np.zeros((nsw, nc))]
            continue
        if len(tids) == 1:
            cands[c] = [np.asarray(T[tids[0]], dtype=np.float64)]
            continue
        counts = {t: int(((sc == c) & (stemplates == t)).sum()) for t in tids}
        top = max(counts.values())
        dom = [t for t in tids if counts[t] == top]
        lists = {}
        for t in tids:
            s_ = R.dense_channel_sets(t, unwhiten=False)
            if s_ is None or s_[1]:
                ambiguous.add(c)
                break
            lists[t] = s_[0]
        if c in ambiguous:
            continue
        tot = float(sum(counts.values()))
        out = []
        for d0 in dom:
            exp = np.zeros((nsw, nc))
            for ch in lists[d0]:
                acc = np.zeros(nsw)
                for t in tids:
                    if ch in lists[t]:
                        acc += counts[t] * np.asarray(T[t], dtype=np.float64)[:, ch]
                exp[:, ch] = acc / tot
            out.append(exp)
        cands[c] = out
    return cands, ambiguous


def pca_projection_ok(waveforms, got, rtol=2e-3):
    """Are `got` (n, nc, 3) the projections of each waveform onto the three leading principal
    components of each channel, up to the sign of each component? Every component whose eigenvalue
    is separated from its neighbours is judged on its own (with two waveforms only the first one
    is); returns True / False / None (None = no component could be decided)."""
    X = np.asarray(waveforms, dtype=np.float64)
    n, nsw, nc = X.shape
    if n < 2 or nsw < 3:
        return None
    decided = 0
    for ch in range(nc):
        x = X[:, :, ch]
        cov = np.cov(x, rowvar=0)
        vals, vecs = np.linalg.eigh(cov)
        order = np.argsort(vals)[::-1]
        vals = vals[order]
        vecs = vecs[:, order]
        top = max(abs(vals[0]), 1e-300)
        if top < 1e-10 * max(float(np.abs(x).max()), 1e-300) ** 2:
            continue    # (numerically) identical waveforms on this channel: no component defined
        proj = x @ vecs[:, :3]  # (n, 3)
        scale = max(float(np.abs(proj).max()), 1e-300)
        for i in range(3):
            gaps = []
            if i > 0:
                gaps.append(vals[i - 1] - vals[i])
            if i + 1 < len(vals):
                gaps.append(vals[i] - vals[i + 1])
            if min(gaps) < 1e-4 * top:
                continue
            decided += 1
            a = np.asarray(got[:, ch, i], dtype=np.float64)
            b = proj[:, i]
            if not (np.all(np.abs(a - b) <= rtol * scale) or np.all(np.abs(a + b) <= rtol * scale)):
                return False
    return True if decided else None
