# -*- coding: utf-8 -*-
"""E3 — merge / ALF-export pipelines over k probe stores (C11, C12, C13, C14).

Real code: phylib.io.merge.Merger (all write_* steps, merge()), phylib.io.alf.EphysAlfCreator
(convert and every make_* / copy / rename / compress step), load_model of the outputs.
Seams: directory-listing order, uuid.uuid4, np.random.choice, NSAMPLE_WAVEFORMS, n_closest_channels.
"""

import copy
import os
import csv
import uuid as _uuid

import numpy as np

from . import seams, world, ref
from .core import RealCodeError
from .recording import window_ref

NAME = 'E3'
COMPONENTS = {
    'real': ['phylib.io.merge.Merger (write_params, write_probe_desc, write_spike_times, '
             'write_spike_data, write_spike_clusters, write_cluster_data, write_channel_data, '
             'write_channel_positions, write_templates, write_template_data, write_misc, merge)',
             'phylib.io.alf.EphysAlfCreator (convert, make_cluster_objects, make_channel_objects, '
             'make_template_and_spikes_objects, make_depths, rm_files, copy_files, '
             'rename_with_label, compress_spikes_dtypes)',
             'phylib.io.model.load_model on inputs and outputs, save_spikes_subset_waveforms',
             'kernel file system (per-run scratch directory), np.load/np.save, csv, scipy block_diag'],
    'stub': ['directory listing order (os.scandir wrapper)', 'uuid.uuid4 (seeded)',
             'np.random.choice (simulator draw strategy)', 'tqdm disabled',
             'knobs: NSAMPLE_WAVEFORMS, TemplateModel.n_closest_channels, DEFAULT_CHUNK_DURATION'],
}
STATE_MEASURE = ('(#probes, sizes equal?, cross-probe time ties?, TSV presence pattern, index-table dtype '
                 'signedness, curated?, label?, raw data?, features?, matrices in all probes?)')
RULE = {
    'C11': ('a plan = k in 1..4 probe directories (independent sizes, id ranges with gaps, curated '
            'clusters, ties inside and across probes, dtype mix, TSV presence pattern) merged by the real '
            'Merger; each spike tagged by a unique amplitude'),
    'C12': 'same merge runs (k >= 3 and unequal sizes weighted up); block-structure oracles',
    'C13': ('a plan = a dense dataset (raw data, features, curation, probe table, KSLabel, temp_wh.dat, '
            'pre-existing store, label, factor) converted by the real EphysAlfCreator, incl. conversion '
            'into the source directory, and reloaded'),
    'C14': 'the C13 runs plus merge->export pipelines with k in 1..4 probes; value oracles',
    '*': 'distinct = distinct plan digests; non-trivial = >= 1 clause evaluated after >= 1 state-changing op',
}
ASSUMPTIONS = [
    'merge inputs share the window length and the column counts of both index tables and carry '
    'amplitudes, clusters and both index tables (DESIGN.md 5.2)',
    'export sources hold features for all spikes or none (no feature row table)',
    'channel-list clauses are tie tolerant; ambiguous peaks are skipped and counted',
]
EXPECTED_PROBES = {
    'C11': ['cross_probe_tie', 'k>=3', 'tsv_in_some', 'tsv_row_for_id_without_spikes',
            'non_finite_amplitude_in_a_probe', 'curated_probe', 'id_gap', 'unsigned_ids',
            'k=1', 'same_merger_run_twice', 'tsv_value_zero'],
    'C12': ['k>=3', 'unequal_channels', 'matrix_in_all', 'matrix_in_some', 'unsigned_index_table',
            'highest_template_unused', 'single_column_probe', 'probe_not_starting_at_x0',
            'same_merger_run_twice', 'more_than_256_templates',
            'probe_order_differs_from_sorted_paths'],
    'C13': ['label', 'raw', 'curated', 'convert_into_source', 'convert_into_source:symlink',
            'convert_into_source:dotdot', 'temp_wh', 'preexisting_store',
            'no_features', 'multi_probe_table', 'highest_template_unused',
            'second_export_from_same_session', 're_export_into_same_directory',
            'params_name_a_missing_raw_file', 'same_creator_object_converts_again'],
    'C14': ['pipeline', 'pipeline_k>=3', 'features', 'no_features', 'empty_cluster_id',
            'few_channels_on_probe', 'factor', 'second_export_from_same_session',
            're_export_into_same_directory', 'batch_boundary_size',
            'cluster_waveforms_recomputed_from_ground_truth',
            'spike_depths_from_ground_truth_features', 'inverse_whitening_from_ground_truth'],
}

TSV_NAMES = ['cluster_Amplitude.tsv', 'cluster_ContamPct.tsv', 'cluster_KSLabel.tsv']


# --------------------------------------------------------------------------------------------------
# Generation
# --------------------------------------------------------------------------------------------------

def _probe_cfg(rng, shared, big):
    c = world.gen_dataset_cfg(rng, 'probe', big=False)
    c['nsw'] = shared['nsw']
    c['sr'] = shared['sr']
    c['npcs'] = shared['npcs']
    c['nc'] = rng.randint(max(2, shared['nloc_f']), 10)
    c['nt'] = rng.randint(max(2, shared['nloc_tf']), 8)
    c['ns'] = rng.randint(2, 60 if not big else 150)
    c['nloc_f'] = shared['nloc_f']
    c['nloc_tf'] = shared['nloc_tf']
    c['ties'] = True
    c['dtypes']['ids'] = rng.choice(['uint32', 'int32', 'int64'])
    c['dtypes']['times'] = rng.choice(['uint64', 'int64'])
    c['dtypes']['find'] = rng.choice(['uint32', 'int32', 'int64'])
    c['dtypes']['chmap'] = rng.choice(['int32', 'uint32', 'int64'])
    c['dtypes']['amps'] = 'float64'     # the amplitudes carry the harness' spike tags
    c['dtypes']['tmpl'] = shared['tmpl'] if rng.random() < 0.8 else \
        {'float32': 'float64', 'float64': 'float32'}[shared['tmpl']]
    c['unused_templates'] = []
    if c['nt'] >= 3 and rng.random() < 0.4:
        un = set(rng.sample(range(c['nt']), rng.randint(1, max(1, c['nt'] // 3))))
        if rng.random() < 0.5:
            un.add(c['nt'] - 1)
        if len(un) < c['nt'] - 1:
            c['unused_templates'] = sorted(un)
    c['present']['wm'] = shared['wm'] if rng.random() < 0.85 else not shared['wm']
    c['present']['wmi'] = c['present']['wm'] and shared['wmi']
    c['present']['similar'] = shared['similar'] if rng.random() < 0.85 else not shared['similar']
    c['geometry'] = rng.choice(['grid', 'line', 'random', 'stagger'])
    c['x_shift'] = rng.choice([0, 0, 11, 30, 50, 200])
    c['pos_scale'] = rng.choice([1, 1, 1, 40])
    if rng.random() < 0.4:
        c['curation'] = world.gen_curation_ops(rng, rng.randint(1, 3))
    if rng.random() < 0.1 and c['nc'] >= 2:
        c['rowvec'] = ['chmap']
    c['raw_channels_extra'] = rng.choice([0, 0, 1, 2])
    c['permute_map'] = rng.random() < 0.6
    c['tsv'] = {n: rng.random() < 0.5 for n in TSV_NAMES}
    c['knobs'] = {}
    return c


def _shared(rng):
    return {'nsw': rng.randint(2, 8), 'sr': rng.choice([1000.0, 30000.0, 29999.954846, 2500.0006]), 'npcs': 3,
            'nloc_f': rng.randint(2, 4), 'nloc_tf': rng.randint(2, 3),
            'tmpl': rng.choice(['float32', 'float32', 'float64']),
            'wm': rng.random() < 0.7, 'wmi': rng.random() < 0.3, 'similar': rng.random() < 0.7}


def gen(rng, prop, tier):
    big = tier == 'thorough'
    cfg = {'listing': rng.choice(['sorted', 'reversed', 'shuffled', 'rotated']),
           'draw': rng.choice(seams.DRAW_STRATEGIES), 'seed': rng.randint(0, 2 ** 31),
           'uuid_seed': rng.randint(0, 2 ** 31), 'knobs': {}}
    pipeline = prop in ('C11', 'C12') or (prop == 'C14' and rng.random() < 0.45) \
        or (prop == 'C13' and rng.random() < 0.25)
    if pipeline:
        k = rng.choice([1, 2, 2, 3, 3, 4]) if prop != 'C12' else rng.choice([1, 2, 3, 3, 4, 4])
        shared = _shared(rng)
        cfg['probes'] = [_probe_cfg(rng, shared, big) for _ in range(k)]
        naming = rng.choice(['indexed', 'sides', 'unpadded', 'same_leaf'])
        for c in cfg['probes']:
            c['dir_naming'] = naming
        if rng.random() < (0.03 if big else 0.012):
            # many templates: real sortings have hundreds (exercises any chunked writing)
            for c in cfg['probes']:
                c['nt'] = rng.choice([70, 257, 300, 513])
                c['ns'] = max(c['ns'], 40)
                c['unused_templates'] = []
        if rng.random() < 0.3 and k >= 2:
            # equal sizes: the coincidence upstream tests live in
            for c in cfg['probes'][1:]:
                c['nc'] = cfg['probes'][0]['nc']
                c['nt'] = cfg['probes'][0]['nt']
                c['unused_templates'] = [t for t in c['unused_templates'] if t < c['nt']]
                if len(c['unused_templates']) >= c['nt'] - 1:
                    c['unused_templates'] = []
        if k >= 2 and rng.random() < (0.02 if big else 0.01):
            # id files of 64 KiB and more (readers switch to memory mapping for large files)
            c = cfg['probes'][rng.randrange(1, k)]
            c['ns'] = rng.choice([8200, 16400, 17000])
            c['ties'] = True
        if prop == 'C11' and rng.random() < 0.12:
            c = cfg['probes'][rng.randrange(k)]
            c['amp_nonfinite'] = [rng.random() for _ in range(rng.randint(1, 3))]
        tot = max(sum(c['nt'] for c in cfg['probes']), sum(c['nc'] for c in cfg['probes']))
        for c in cfg['probes'][1:]:
            if rng.random() < 0.15:
                # 8/16-bit index tables that can hold the merged numbering (only in later probes:
                # the merged table takes the first probe's dtype)
                c['dtypes']['find'] = rng.choice(['uint16', 'int16', 'uint8'] if tot < 120
                                                 else ['uint16', 'int16'])
        if prop in ('C11', 'C12') and rng.random() < 0.1:
            # a dead / saturated channel in the LAST template of a probe (NaN or inf everywhere)
            c = cfg['probes'][rng.randrange(k)]
            c['poison'].append({'name': 'tmpl', 'kind': 'nan_column', 't': c['nt'] - 1,
                                'ch': rng.randrange(c['nc']),
                                'val': rng.choice(['nan', 'inf', '-inf'])})
        ops = [{'op': 'merge'}]
        if rng.random() < 0.15:
            # history: every probe folder was opened (and closed) once before the merge; loading
            # leaves an inverse whitening matrix behind in each of them
            ops.insert(0, {'op': 'open_probes'})
        if rng.random() < 0.12:
            ops[-1]['stale_output'] = rng.choice(['templates', 'more'])
        if rng.random() < 0.2:
            ops.append({'op': 'merge_again'})   # the same Merger instance run a second time
        if prop in ('C11', 'C12') and rng.random() < 0.15:
            ops.append({'op': 'recurate_probe_and_merge', 'probe': rng.randrange(k),
                        'ops': world.gen_curation_ops(rng, rng.randint(1, 2))})
        if prop in ('C13', 'C14'):
            cfg['knobs']['n_closest_channels'] = rng.choice([2, 4, 12])
            ops.append({'op': 'convert', 'label': rng.choice(['', 'probe00']),
                        'ampfactor': rng.choice([1, 2.34e-6, 2.5]), 'force': False})
        return {'engine': NAME, 'cfg': cfg, 'ops': ops}
    # export of a single dense dataset
    d = world.gen_dataset_cfg(rng, 'dense', big=big)
    p = d['present']
    p['sclusters'] = True if rng.random() < 0.8 else p['sclusters']
    p['amps'] = True
    p['feature_rows'] = False
    p['tfeature_rows'] = False
    d['dtypes']['ids'] = 'uint16' if (d['nt'] >= 130 and rng.random() < 0.6) else \
        rng.choice(['uint32', 'int32', 'int64'])
    if d['dtypes'].get('amps') == 'float16':
        d['dtypes']['amps'] = 'float32'    # (half-precision means depend on the evaluation order)
    d['colvec'] = [f for f in d['colvec'] if f != 'chmap']
    if rng.random() < 0.5:
        d['curation'] = world.gen_curation_ops(rng, rng.randint(1, 3))
    d['pos_scale'] = rng.choice([1, 1, 40])
    if prop == 'C14' and rng.random() < (0.012 if big else 0.005):
        # get_depths works in batches of 50 000 spikes
        d['ns'] = rng.choice([50000, 50001, 100001, 100002])
        p.update({'features': True, 'feature_rows': False, 'tfeatures': False, 'raw': False,
                  'attrs': False, 'reordered': False})
        d['raw'] = None
        d['nloc_f'] = 2
        d['npcs'] = 2
    d['extras'] = {'ks_label': rng.random() < 0.5, 'temp_wh': rng.random() < 0.4,
                   'channel_labels': rng.random() < 0.3, 'drift': rng.random() < 0.2,
                   'alf_rawind': rng.random() < 0.12,
                   'linked_ids': rng.random() < 0.1, 'params_symlink': rng.random() < 0.08,
                   'pre_store': False}
    if p['raw'] and rng.random() < 0.3:
        d['extras']['pre_store'] = True
    if prop == 'C13' and d['unused_templates'] and rng.random() < 0.35:
        # KiloSort leaves all-NaN templates for unused ids; the loader zeroes them in memory
        d['poison'].append({'name': 'tmpl', 'kind': 'nan_template',
                            'ids': d['unused_templates'][:2]})
    if not p['wm'] and rng.random() < 0.2:
        d['wmi_only'] = True      # only the inverse whitening matrix is there
    if p['probes'] and rng.random() < 0.3:
        d['dtypes']['chprobe'] = rng.choice(['int8', 'uint8', 'int64'])
    if prop == 'C14' and rng.random() < 0.015 and d['ns'] < 1000:
        # a wide probe table with 8-bit probe labels: raw indices beyond 127 / 255
        d['nc'] = rng.choice([130, 260])
        p['probes'] = True
        d['n_probes'] = 2
        d['dtypes']['chprobe'] = rng.choice(['int8', 'uint8'])
        d['geometry'] = 'line'
        p['raw'] = False
        d['raw'] = None
        p['features'] = False
    cfg['dataset'] = d
    cfg['knobs']['nsample_waveforms'] = rng.choice([1, 3, 10, 500])
    if rng.random() < 0.6:
        cfg['knobs']['n_closest_channels'] = rng.choice([2, 3, 5, 12, 32])
    ops = [{'op': 'load'}]
    if rng.random() < 0.2:
        # history: the folder has been opened before (an earlier session left its cache files)
        ops.append({'op': 'reopen_source'})
    if rng.random() < 0.3:
        ops.append({'op': 'convert_into_source',
                    'alias': rng.choice(['same', 'str', 'symlink', 'dotdot', 'trailing']),
                    'force': rng.random() < 0.4})
    ops.append({'op': 'convert', 'label': rng.choice(['', '', 'probe00', 'x1', 'clusters', 'amps',
                                                       'times', 'templates', 'uuids', 'npy']),
                'ampfactor': rng.choice([1, 1, 2.34e-6, 2.5, 0.5]), 'force': rng.random() < 0.3})
    r = rng.random()
    if r < 0.15:
        # a second export from the same loaded model into another directory
        ops.append({'op': 'convert', 'out': 'alf2', 'label': rng.choice(['', '', 'probe01', 'b']),
                    'ampfactor': rng.choice([1, 2.5]), 'force': False})
    elif r < 0.3:
        # export, re-curate, export again into the same directory (force=True overwrites)
        ops[-1]['label'] = ''
        ops.append({'op': 'recurate', 'ops': world.gen_curation_ops(rng, rng.randint(1, 2))})
        ops.append({'op': 'convert', 'label': '', 'ampfactor': ops[-2]['ampfactor'],
                    'force': True})
    return {'engine': NAME, 'cfg': cfg, 'ops': ops}


def simplify(plan):
    cfg = plan['cfg']
    for key, simple in (('listing', 'sorted'), ('draw', 'first')):
        if cfg.get(key) != simple:
            p = copy.deepcopy(plan)
            p['cfg'][key] = simple
            yield p
    for k in list(cfg.get('knobs', {})):
        p = copy.deepcopy(plan)
        del p['cfg']['knobs'][k]
        yield p
    if 'probes' in cfg:
        if len(cfg['probes']) > 1:
            for i in reversed(range(len(cfg['probes']))):
                p = copy.deepcopy(plan)
                del p['cfg']['probes'][i]
                yield p
        for i, c in enumerate(cfg['probes']):
            for key, simple in (('curation', []), ('colvec', []), ('unused_templates', []),
                                ('geometry', 'line'), ('permute_map', False),
                                ('raw_channels_extra', 0), ('x_shift', 0), ('pos_scale', 1),
                                ('dir_naming', 'indexed')):
                if c.get(key) != simple:
                    p = copy.deepcopy(plan)
                    p['cfg']['probes'][i][key] = simple
                    yield p
            if any(c['tsv'].values()):
                p = copy.deepcopy(plan)
                p['cfg']['probes'][i]['tsv'] = {n: False for n in TSV_NAMES}
                yield p
            for key in ('wm', 'wmi', 'similar'):
                if c['present'][key]:
                    p = copy.deepcopy(plan)
                    p['cfg']['probes'][i]['present'][key] = False
                    if key == 'wm':
                        p['cfg']['probes'][i]['present']['wmi'] = False
                    yield p
            for key, simple in (('ids', 'int32'), ('times', 'int64'), ('find', 'int32'),
                                ('chmap', 'int32')):
                if c['dtypes'][key] != simple:
                    p = copy.deepcopy(plan)
                    p['cfg']['probes'][i]['dtypes'][key] = simple
                    yield p
            if c['ns'] > 2:
                p = copy.deepcopy(plan)
                p['cfg']['probes'][i]['ns'] = max(2, c['ns'] // 2)
                yield p
    if 'dataset' in cfg:
        d = cfg['dataset']
        for key, simple in (('curation', []), ('colvec', []), ('unused_templates', []),
                            ('geometry', 'line')):
            if d.get(key) != simple:
                p = copy.deepcopy(plan)
                p['cfg']['dataset'][key] = simple
                yield p
        for key, v in d['present'].items():
            if v and key not in ('amps', 'sclusters'):
                p = copy.deepcopy(plan)
                p['cfg']['dataset']['present'][key] = False
                if key == 'wm':
                    p['cfg']['dataset']['present']['wmi'] = False
                yield p
        for key, v in d['extras'].items():
            if v:
                p = copy.deepcopy(plan)
                p['cfg']['dataset']['extras'][key] = False
                yield p
        if d['ns'] > 2:
            p = copy.deepcopy(plan)
            p['cfg']['dataset']['ns'] = max(2, d['ns'] // 2)
            yield p
    for j, op in enumerate(plan['ops']):
        if op['op'] == 'convert':
            for key, simple in (('label', ''), ('ampfactor', 1), ('force', False)):
                if op[key] != simple:
                    p = copy.deepcopy(plan)
                    p['ops'][j][key] = simple
                    yield p


def validate(plan):
    cfg = plan['cfg']
    if 'probes' in cfg and not cfg['probes']:
        return False
    return True


# --------------------------------------------------------------------------------------------------
# Helpers
# --------------------------------------------------------------------------------------------------

def _aeq(a, b):
    a = np.asarray(a)
    b = np.asarray(b)
    return a.shape == b.shape and bool(np.array_equal(a, b))


def _desc(a):
    if a is None:
        return None
    a = np.asarray(a)
    return {'shape': list(a.shape), 'dtype': str(a.dtype), 'head': a.ravel()[:8].tolist()}


def _num(v):
    try:
        return int(v)
    except ValueError:
        try:
            return float(v)
        except ValueError:
            return v


def read_two_col_tsv(path):
    with open(path, newline='', encoding='utf-8') as f:
        rows = list(csv.reader(f, delimiter='\t'))
    field = rows[0][1]
    return field, {int(r[0]): _num(r[1]) for r in rows[1:] if r}


class Probe(object):
    """One input store written by the sorter actor for the merge."""

    def __init__(self, index, cfg, root):
        self.index = index
        self.cfg = cfg
        g = world.build_gt(cfg)
        # unique amplitude tag: identifies (probe, original spike index) in the merged output
        g.amps = index * 1000000.0 + np.arange(cfg['ns']) + 0.5
        # raw channel map (no raw file is written; params declare n_channels_dat)
        rs = np.random.RandomState((cfg['seed'] + 17) % (2 ** 32))
        n_dat = cfg['nc'] + cfg['raw_channels_extra']
        g.n_channels_dat = n_dat
        g.chmap = (rs.permutation(n_dat)[:cfg['nc']] if cfg['permute_map']
                   else np.arange(cfg['nc'])).astype(np.int64)
        self.untagged = set()
        for j, frac in enumerate(cfg.get('amp_nonfinite') or []):
            i_ = int(frac * (cfg['ns'] - 1))
            g.amps[i_] = [np.nan, np.inf, -np.inf][j % 3]
            self.untagged.add(i_)
        self.g = g
        naming = cfg.get('dir_naming', 'indexed')
        if naming == 'sides':      # given order right, left, mid, far != sorted order
            name = ['imec_right', 'imec_left', 'imec_mid', 'imec_far'][index % 4]
        elif naming == 'unpadded':   # probe9, probe10, probe11, probe12: 'probe10' < 'probe9'
            name = 'probe%d' % (index + 9)
        elif naming == 'same_leaf':  # imec0/ks2, imec1/ks2, ...: every probe folder has the same name
            name = 'imec%d/ks2' % index
        else:
            name = 'probe%d' % index
        self.dir = root / name
        world.write_dataset(cfg, g, self.dir)
        self.tsv = {}
        ids = np.unique(g.sclusters)
        # rows for ids without spikes below the highest id (a cluster merged away keeps its label)
        gap_ids = [c for c in range(int(ids.max())) if c not in set(int(x) for x in ids)
                   and rs.rand() < 0.5]
        ids = np.array(sorted(set(int(x) for x in ids) | set(gap_ids)), dtype=np.int64)
        self.tsv_gap_ids = gap_ids
        for name in TSV_NAMES:
            if not cfg['tsv'].get(name):
                continue
            field = name[len('cluster_'):-4]
            vals = {}
            for c in ids:
                r = rs.rand()
                if r < 0.2:
                    continue
                if field == 'KSLabel':
                    vals[int(c)] = ['good', 'mua'][int(rs.randint(0, 2))]
                    if rs.rand() < 0.06:
                        vals[int(c)] = ''       # a row whose value cell is empty
                elif field == 'ContamPct':
                    vals[int(c)] = [int(rs.randint(0, 100)), float(np.round(rs.rand() * 100, 1)),
                                    0.0, 0][int(rs.randint(0, 4))]
                else:
                    vals[int(c)] = [float(np.round(rs.rand() * 50, 2)), float(np.round(rs.rand(), 8)),
                                    4e-05, 35.123456, 1e-07][int(rs.randint(0, 5)) if rs.rand() < 0.4
                                                            else 0]
            if not vals:
                vals[int(ids[0])] = 'good' if field == 'KSLabel' else 1.5
            self.tsv_phantom = getattr(self, 'tsv_phantom', {})
            if rs.rand() < 0.12:
                # a row for an id ABOVE the probe's highest cluster id (one row per template, the
                # last template without spikes): it belongs to no cluster of this probe
                ph = int(ids.max()) + 1 + int(rs.randint(0, 2))
                self.tsv_phantom.setdefault(name, {})[ph] = 'mua' if field == 'KSLabel' else 77.5
            with open(self.dir / name, 'w', newline='') as f:
                wr = csv.writer(f, delimiter=',' if (cfg['seed'] + len(name)) % 9 == 0 else '\t')
                wr.writerow(['cluster_id', field])
                rows_ = dict(vals)
                rows_.update(self.tsv_phantom.get(name, {}))
                for c in sorted(rows_):
                    wr.writerow([c, rows_[c]])
            self.tsv[name] = (field, vals)


# --------------------------------------------------------------------------------------------------
# Merge oracles
# --------------------------------------------------------------------------------------------------

def check_merge(ctx, probes, out, model):
    prop = ctx.prop
    k = len(probes)
    ld = lambda name: np.load(out / name)  # noqa
    times = ld('spike_times.npy')
    amps = ld('amplitudes.npy')
    sc = ld('spike_clusters.npy')
    st = ld('spike_templates.npy')
    n_total = sum(p.cfg['ns'] for p in probes)
    # expected order: by time, then probe, then original index
    keys = []
    for p in probes:
        for i, t in enumerate(p.g.samples):
            keys.append((int(t), p.index, i))
    keys.sort()
    # spikes whose amplitude is NaN / +-inf in their probe carry no tag: they are recognised by
    # their place in the expected order and must keep exactly that non-finite amplitude
    exp_seq = [(pi, i) for _, pi, i in keys]
    by_index = {p.index: p for p in probes}
    got_pi = []
    for j, a in enumerate(amps):
        e = exp_seq[j] if j < len(exp_seq) else None
        if e is not None and e[1] in getattr(by_index[e[0]], 'untagged', ()):
            want = by_index[e[0]].g.amps[e[1]]
            same = (np.isnan(a) and np.isnan(want)) or a == want
            if prop == 'C11':
                ctx.probe('non_finite_amplitude_in_a_probe')
                ctx.check(bool(same), 'spike-amplitude-changed',
                          lambda: {'probe': e[0], 'spike': e[1], 'got': float(a),
                                   'expected': float(want)})
            got_pi.append(e if same else (-1, -1))
        elif not np.isfinite(a):
            got_pi.append((-1, -1))
        else:
            got_pi.append((int(a // 1000000), int(round(a - (a // 1000000) * 1000000 - 0.5))))
    cnt = {}
    for t, pi, i in keys:
        cnt[t] = cnt.get(t, set()) | {pi}
    if any(len(v) > 1 for v in cnt.values()):
        ctx.probe('cross_probe_tie')
    if k >= 3:
        ctx.probe('k>=3')
    if k == 1:
        ctx.probe('k=1')
    # observed per-probe id offsets
    offs = {'c': {}, 't': {}}
    ok_shapes = (times.shape == (n_total,) and amps.shape == (n_total,) and sc.shape == (n_total,)
                 and st.shape == (n_total,))
    if prop == 'C11':
        ctx.check(ok_shapes, 'merged-spike-count', lambda: {
            'times': list(times.shape), 'amps': list(amps.shape), 'expected': n_total})
        ctx.check(sorted(got_pi) == sorted((pi, i) for _, pi, i in keys),
                  'spike-lost-or-duplicated',
                  lambda: {'n_got': len(got_pi), 'n_expected': len(keys)})
        ctx.check(bool(np.all(np.diff(times.astype(np.int64)) >= 0)), 'merged-times-not-sorted')
        ctx.check(got_pi == [(pi, i) for _, pi, i in keys], 'merged-order-not-stable-by-probe',
                  lambda: {'first_diff': next((j for j, (a, b) in enumerate(
                      zip(got_pi, [(pi, i) for _, pi, i in keys])) if a != b), None)})
        ctx.check([int(t) for t in times] == [t for t, _, _ in keys], 'spike-time-changed')
    elif not ok_shapes or got_pi != [(pi, i) for _, pi, i in keys]:
        return None  # C11's business
    for which, arr, attr in (('c', sc, 'sclusters'), ('t', st, 'stemplates')):
        for j, (pi, i) in enumerate(got_pi):
            d = int(arr[j]) - int(getattr(probes[pi].g, attr)[i])
            offs[which].setdefault(pi, set()).add(d)
    if prop == 'C11':
        for which, name in (('c', 'cluster'), ('t', 'template')):
            ctx.check(all(len(v) == 1 for v in offs[which].values()),
                      name + '-ids-not-shifted-by-constant-per-probe',
                      lambda: {p: sorted(v)[:5] for p, v in offs[which].items()})
            ranges = []
            for p in probes:
                o = next(iter(offs[which][p.index]))
                ids = getattr(p.g, 'sclusters' if which == 'c' else 'stemplates')
                ranges.append(set(int(x) + o for x in np.unique(ids)))
            for a in range(k):
                for b in range(a + 1, k):
                    ctx.check(not (ranges[a] & ranges[b]), name + '-ids-of-probes-collide',
                              lambda: {'probes': [a, b],
                                       'common': sorted(ranges[a] & ranges[b])[:5]})
        # probe table
        cp = ld('cluster_probes.npy')
        ctx.check(len(cp) == int(sc.max()) + 1, 'cluster-probe-table-length',
                  lambda: {'len': len(cp), 'max_id': int(sc.max())})
        for j, (pi, i) in enumerate(got_pi):
            if int(sc[j]) < len(cp) and int(cp[int(sc[j])]) != pi:
                ctx.fail('cluster-probe-table-wrong', {'cluster': int(sc[j]), 'probe': pi,
                                                       'table': int(cp[int(sc[j])])})
        ctx.clauses += 1
        # per-cluster metadata
        for name in TSV_NAMES:
            have = [p for p in probes if name in p.tsv]
            path = out / name
            if not have:
                ctx.check(not path.exists(), 'merged-tsv-without-source', lambda: {'file': name})
                continue
            if len(have) < k:
                ctx.probe('tsv_in_some')
            ctx.check(path.exists(), 'merged-tsv-missing', lambda: {'file': name})
            field, got = read_two_col_tsv(path)
            exp = {}
            for p in have:
                o = next(iter(offs['c'][p.index]))
                for c, v in p.tsv[name][1].items():
                    exp[c + o] = v
                    # the renumbered row must lead back to its probe through the probe table
                    if c in p.tsv_gap_ids:
                        ctx.probe('tsv_row_for_id_without_spikes')
                    if 0 <= c + o < len(cp) and int(cp[c + o]) != p.index:
                        ctx.fail('cluster-probe-table-wrong',
                                 {'cluster': int(c + o), 'probe': p.index, 'table': int(cp[c + o]),
                                  'why': 'id carrying a metadata row (no spike)'})
                    if v == 0 and not isinstance(v, str):
                        ctx.probe('tsv_value_zero')
            # rows for ids above a probe's highest cluster id belong to no cluster: where they land
            # in the merged numbering they may appear or not, but never instead of a real row
            phantom = {}
            for p in have:
                o = next(iter(offs['c'][p.index]))
                for c, v in getattr(p, 'tsv_phantom', {}).get(name, {}).items():
                    if c + o not in exp:
                        phantom[c + o] = v
                        ctx.probe('tsv_row_above_highest_cluster_id')
            same = set(exp) <= set(got) <= set(exp) | set(phantom) and all(
                type(got[c]) is type(exp[c]) and got[c] == exp[c] for c in exp) and all(
                got[c] == phantom[c] for c in got if c not in exp)
            ctx.check(same and field == have[0].tsv[name][0], 'merged-tsv-content',
                      lambda: {'file': name, 'got': sorted(got.items())[:6],
                               'expected': sorted(exp.items())[:6]})
        for p in probes:
            if p.cfg.get('curation'):
                ctx.probe('curated_probe')
            ids = np.unique(p.g.sclusters)
            if len(ids) != int(ids.max()) + 1:
                ctx.probe('id_gap')
            if p.cfg['dtypes']['ids'].startswith('u'):
                ctx.probe('unsigned_ids')
        # the returned model agrees with the files
        ctx.check(_aeq(model.spike_samples, times) and _aeq(model.spike_clusters, sc)
                  and _aeq(model.spike_templates, st)
                  and _aeq(model.amplitudes, np.where(np.isfinite(amps), amps, 0.0)),
                  'returned-model-disagrees-with-files')
        return offs
    if not all(len(v) == 1 for v in offs['t'].values()):
        return None
    return offs


def check_merge_structure(ctx, probes, out, model, offs):
    """C12."""
    k = len(probes)
    ld = lambda name: np.load(out / name)  # noqa
    ncs = [p.cfg['nc'] for p in probes]
    nts = [p.cfg['nt'] for p in probes]
    c0 = np.cumsum([0] + ncs)
    t0 = np.cumsum([0] + nts)
    if len(set(ncs)) > 1:
        ctx.probe('unequal_channels')
    if max(nts) > 256:
        ctx.probe('more_than_256_templates')
    if k >= 2 and probes[0].cfg.get('dir_naming', 'indexed') != 'indexed':
        ctx.probe('probe_order_differs_from_sorted_paths')
    if k >= 3:
        ctx.probe('k>=3')
    # channels
    cm = ld('channel_map.npy')
    cpr = ld('channel_probe.npy')
    pos = ld('channel_positions.npy')
    ctx.check(cm.shape == (c0[-1],) and cpr.shape == (c0[-1],) and pos.shape == (c0[-1], 2),
              'merged-channel-array-shapes',
              lambda: {'map': list(cm.shape), 'probe': list(cpr.shape), 'pos': list(pos.shape)})
    total_dat = sum(p.g.n_channels_dat for p in probes)
    ranges = []
    for i, p in enumerate(probes):
        blk = slice(c0[i], c0[i + 1])
        ctx.check(bool(np.all(cpr[blk] == i)), 'channel-block-probe-label',
                  lambda: {'probe': i, 'labels': cpr[blk].tolist()})
        d = cm[blk].astype(np.int64) - p.g.chmap
        ctx.check(bool(np.all(d == d[0])), 'channel-map-block-not-shifted-by-constant',
                  lambda: {'probe': i, 'diff': d.tolist()})
        ranges.append((int(cm[blk].min()), int(cm[blk].max())))
        ctx.check(_aeq(pos[blk, 1], p.g.pos[:, 1]), 'channel-y-changed', lambda: {'probe': i})
        dx = pos[blk, 0] - p.g.pos[:, 0]
        ctx.check(bool(np.all(np.abs(dx - dx[0]) <= 1e-9 * max(1.0, abs(dx[0])))),
                  'channel-x-not-translated-rigidly', lambda: {'probe': i, 'dx': dx.tolist()})
        if len(set(p.g.pos[:, 0])) == 1:
            ctx.probe('single_column_probe')
    for a in range(k):
        for b in range(a + 1, k):
            ctx.check(ranges[a][1] < ranges[b][0], 'channel-maps-of-probes-collide',
                      lambda: {'probes': [a, b], 'ranges': ranges})
    ctx.check(ranges[-1][1] < total_dat, 'channel-map-exceeds-declared-raw-channel-count',
              lambda: {'max': ranges[-1][1], 'n_channels_dat': total_dat})
    ctx.check(len(set(map(tuple, pos))) == len(pos), 'probes-not-kept-apart',
              lambda: {'positions': pos.tolist()[:12]})
    ext = [(float(pos[c0[i]:c0[i + 1], 0].min()), float(pos[c0[i]:c0[i + 1], 0].max()))
           for i in range(k)]
    for a in range(k):
        for b in range(a + 1, k):
            ctx.check(ext[a][1] < ext[b][0] or ext[b][1] < ext[a][0],
                      'probes-overlap-along-x', lambda: {'probes': [a, b], 'x_extents': ext})
    if any(p.cfg.get('x_shift') for p in probes):
        ctx.probe('probe_not_starting_at_x0')
    # templates
    T = ld('templates.npy')
    ctx.check(T.shape == (t0[-1], probes[0].cfg['nsw'], c0[-1]), 'merged-templates-shape',
              lambda: {'got': list(T.shape), 'expected': [int(t0[-1]), probes[0].cfg['nsw'],
                                                          int(c0[-1])]})
    for i, p in enumerate(probes):
        o = next(iter(offs['t'][p.index]))
        if (p.cfg['nt'] - 1) in p.cfg['unused_templates']:
            ctx.probe('highest_template_unused')
        for t in range(p.cfg['nt']):
            row = o + t
            ctx.check(0 <= row < T.shape[0], 'template-offset-outside-array',
                      lambda: {'probe': i, 'template': t, 'row': row})
            exp = np.zeros((T.shape[1], T.shape[2]), dtype=T.dtype)
            exp[:, c0[i]:c0[i + 1]] = p.g.tmpl_data[t]
            ctx.check(T[row].shape == exp.shape and bool(np.array_equal(T[row], exp, equal_nan=True)),
                      'template-not-at-offset-index-on-its-probe-block',
                      lambda: {'probe': i, 'template': t, 'row': int(row),
                               'nonzero_cols': np.nonzero(np.any(T[row] != 0, axis=0))[0].tolist(),
                               'expected_cols': [int(c0[i]), int(c0[i + 1])]})
    # index tables
    pfi = ld('pc_feature_ind.npy')
    tfi = ld('template_feature_ind.npy')
    e_pfi = np.concatenate([p.g.pc_ind + c0[i] for i, p in enumerate(probes)])
    e_tfi = np.concatenate([p.g.tf_ind + t0[i] for i, p in enumerate(probes)])
    ctx.check(_aeq(pfi.astype(np.int64), e_pfi), 'pc-feature-ind-not-in-merged-channel-numbering',
              lambda: {'got': _desc(pfi), 'expected': _desc(e_pfi)})
    ctx.check(_aeq(tfi.astype(np.int64), e_tfi),
              'template-feature-ind-not-in-merged-template-numbering',
              lambda: {'got': _desc(tfi), 'expected': _desc(e_tfi)})
    if any(p.cfg['dtypes']['find'].startswith('u') for p in probes):
        ctx.probe('unsigned_index_table')
    # matrices
    for name, attr, pres in (('whitening_mat.npy', 'wm', 'wm'),
                             ('whitening_mat_inv.npy', 'wmi_file', 'wmi'),
                             ('similar_templates.npy', 'similar', 'similar')):
        have = [(p.dir / name).exists() for p in probes]   # (a probe folder opened before the
        #                                  merge has been given its inverse whitening matrix)
        if all(have):
            ctx.probe('matrix_in_all')
            ctx.check((out / name).exists(), 'merged-matrix-missing', lambda: {'file': name})
            M = ld(name)
            blocks = [np.load(p.dir / name) for p in probes]
            n = sum(b.shape[0] for b in blocks)
            exp = np.zeros((n, n))
            a = 0
            for b in blocks:
                exp[a:a + b.shape[0], a:a + b.shape[0]] = b
                a += b.shape[0]
            # (exact: the merged matrix must be able to HOLD every block, whatever type the first
            # probe happens to use)
            ctx.check(M.shape == exp.shape and bool(np.array_equal(
                np.asarray(M, dtype=np.float64), exp)),
                'merged-matrix-not-block-diagonal', lambda: {'file': name,
                                                             'shape': list(M.shape),
                                                             'dtype': str(M.dtype)})
        elif any(have):
            ctx.probe('matrix_in_some')
    # params
    from phylib.utils._misc import read_python
    pr = read_python(out / 'params.py')
    ctx.check(float(pr['sample_rate']) == probes[0].cfg['sr'], 'merged-params-sample-rate',
              lambda: {'got': pr['sample_rate']})
    ctx.check(int(pr['n_channels_dat']) == total_dat, 'merged-params-raw-channel-count',
              lambda: {'got': pr['n_channels_dat'], 'expected': total_dat})


# --------------------------------------------------------------------------------------------------
# Export oracles
# --------------------------------------------------------------------------------------------------

LABEL_PREFIXES = ('channels.', 'clusters.', 'spikes.', 'templates.')


def _find(out, base, label):
    """Path of an ALF file 'obj.attr.ext' with the label inserted before the extension."""
    stem, ext = base.rsplit('.', 1)
    name = '%s.%s.%s' % (stem, label, ext) if label else base
    return out / name


def _dim0(a):
    """First dimension of a stored table; a 0-d array has none (reported as -1)."""
    a = np.asarray(a)
    return int(a.shape[0]) if a.ndim else -1


def check_export_structure(ctx, model, src_dir, out, op, before_src, n_probes, out_model,
                           memo=None, written=None):
    """C13."""
    label = op['label']
    ns, nt, nc = model.n_spikes, model.n_templates, model.n_channels
    sc = np.asarray(model.spike_clusters)
    curated = not np.array_equal(sc, model.spike_templates)
    n_clu = int(sc.max()) + 1 if curated else nt
    files = sorted(f.name for f in out.iterdir())
    ctx.ev('export-files', files)

    def load(base):
        p = _find(out, base, label)
        ctx.check(p.exists(), 'expected-output-file-missing', lambda: {'file': p.name,
                                                                      'files': files})
        return np.load(p)
    dims = {}
    for base in ('spikes.times.npy', 'spikes.samples.npy', 'spikes.amps.npy', 'spikes.depths.npy',
                 'spikes.clusters.npy', 'spikes.templates.npy'):
        dims[base] = (_dim0(load(base)), ns)
    for base in ('clusters.channels.npy', 'clusters.peakToTrough.npy', 'clusters.amps.npy',
                 'clusters.waveforms.npy', 'clusters.waveformsChannels.npy', 'clusters.depths.npy'):
        dims[base] = (_dim0(load(base)), n_clu)
    for base in ('templates.amps.npy', 'templates.waveforms.npy',
                 'templates.waveformsChannels.npy'):
        dims[base] = (_dim0(load(base)), nt)
    for base in ('channels.rawInd.npy', 'channels.localCoordinates.npy'):
        dims[base] = (_dim0(load(base)), nc)
    for f in files:
        if f.startswith('channels.') and f.endswith('.npy'):
            dims[f] = (_dim0(np.load(out / f)), nc)
        if f.startswith('clusters.') and f.endswith('.npy'):
            dims[f] = (_dim0(np.load(out / f)), n_clu)
    bad = {k: v for k, v in dims.items() if v[0] != v[1]}
    ctx.check(not bad, 'object-table-first-dimension', lambda: {'bad': bad, 'curated': curated})
    # uuids
    up = _find(out, 'clusters.uuids.csv', label)
    ctx.check(up.exists(), 'expected-output-file-missing', lambda: {'file': up.name})
    lines = up.read_text().split('\n')
    ids = lines[1:]
    okfmt = True
    try:
        parsed = [_uuid.UUID(x) for x in ids]
    except Exception:
        okfmt = False
        parsed = []
    ctx.check(lines[0] == 'uuids' and okfmt and len(ids) == n_clu and len(set(parsed)) == n_clu,
              'cluster-uuids', lambda: {'n': len(ids), 'distinct': len(set(ids)),
                                        'expected': n_clu})
    # units
    ctx.check(ref.close(load('spikes.times.npy'), np.asarray(model.spike_samples) /
                        model.sample_rate, 1e-12), 'spikes-times-not-in-seconds')
    ctx.check(_aeq(load('spikes.samples.npy'), model.spike_samples), 'spikes-samples-not-in-samples')
    # label
    if label:
        ctx.probe('label')
    foreign_ok = {'params.py', 'cluster_KSLabel.tsv', '_kilosort_whitening.matrix.npy',
                  '_phy_spikes_subset.channels.npy', '_phy_spikes_subset.spikes.npy',
                  '_phy_spikes_subset.waveforms.npy', 'drift_depths.um.npy', 'drift.times.npy',
                  'drift.um.npy', 'whitening_mat_inv.npy'}
    for f in files:
        parts = f.split('.')
        if f.startswith(LABEL_PREFIXES):
            # ALF object files are obj.attr.ext; with a label obj.attr.label.ext
            good = (len(parts) == 4 and parts[2] == label) if label else len(parts) == 3
            ctx.check(good, 'label-not-inserted-before-extension',
                      lambda: {'file': f, 'label': label})
        else:
            ctx.check(f in foreign_ok, 'label-inserted-in-foreign-file', lambda: {'file': f})
    # source directory effects
    after_src = world.snapshot(src_dir)
    created, deleted, modified = world.diff_snapshots(before_src, after_src)
    store = {'_phy_spikes_subset.waveforms.npy', '_phy_spikes_subset.spikes.npy',
             '_phy_spikes_subset.channels.npy'}
    ctx.check(set(deleted) <= {'temp_wh.dat'}, 'source-file-deleted', lambda: {'deleted': deleted})
    if 'temp_wh.dat' in before_src:
        ctx.probe('temp_wh')
        ctx.check('temp_wh.dat' in deleted, 'temporary-whitened-file-not-deleted')
    ctx.check(not (set(modified) - store), 'source-file-modified',
              lambda: {'modified': modified})
    ctx.check(set(created) <= store, 'source-file-created', lambda: {'created': created})
    if written is not None:
        # ... and since the directory was written, i.e. including what LOADING it did: every file
        # the sorter wrote is still byte-identical (the assignments may have been re-saved by a
        # curation step of the history)
        changed = sorted(f for f, h in written.items()
                         if f in after_src and after_src[f] != h
                         and f not in store and f != 'spike_clusters.npy')
        ctx.check(not changed, 'source-file-modified',
                  lambda: {'modified_since_written': changed})
    # reload of the output
    if out_model is not None:
        ctx.check(ref.close(out_model.spike_times, model.spike_times, 1e-12)
                  and _aeq(out_model.spike_samples, model.spike_samples),
                  'reloaded-output-spike-times')
        ctx.check(_aeq(out_model.spike_clusters, model.spike_clusters),
                  'reloaded-output-spike-clusters',
                  lambda: {'got': _desc(out_model.spike_clusters),
                           'expected': _desc(model.spike_clusters)})
        ctx.check(_aeq(out_model.spike_templates, model.spike_templates),
                  'reloaded-output-spike-templates')
        ctx.check(_aeq(out_model.channel_positions, model.channel_positions),
                  'reloaded-output-positions')
        if n_probes == 1:
            ctx.check(_aeq(out_model.channel_mapping, model.channel_mapping),
                      'reloaded-output-channel-map',
                      lambda: {'got': _desc(out_model.channel_mapping),
                               'expected': _desc(model.channel_mapping)})
        if memo is not None:
            # every export of one source must load back to the same channel map (whatever the
            # per-probe re-expression of C14 is): an export must not depend on earlier exports
            cm = np.asarray(out_model.channel_mapping).astype(np.int64)
            if 'channel_map' in memo:
                ctx.check(_aeq(cm, memo['channel_map']),
                          'reloaded-output-channel-map-differs-between-exports',
                          lambda: {'first': memo['channel_map'].tolist(), 'now': cm.tolist()})
            else:
                memo['channel_map'] = cm
    else:
        ctx.fail('convert-returned-no-model')


def _nearest_ok(listed, peak, pos, probes_of, ncw):
    """Are `listed` the ncw nearest channels (L1) of `peak` on its probe, peak first? Tie tolerant.
    Returns (ok, n_asserted)."""
    same = np.nonzero(probes_of == probes_of[peak])[0]
    d = np.abs(pos - pos[peak]).sum(axis=1)
    k = min(ncw, len(same))
    exp_d = np.sort(d[same])[:k]
    if int(listed[0]) != int(peak):
        return False, k
    head = [int(x) for x in listed[:k]]
    if len(set(head)) != k or any(probes_of[c] != probes_of[peak] for c in head):
        return False, k
    got_d = np.array([d[c] for c in head])
    return bool(np.all(np.abs(np.sort(got_d) - exp_d) <= 1e-9 * max(1.0, float(exp_d.max())))), k


def check_export_values(ctx, model, out, op, orig_maps, src_gt=None):
    """C14. `model` is the source model (its stored arrays are the inputs of the formulas); for
    sources written by the dataset world the cluster waveforms are additionally recomputed from the
    ground truth (weighted means of C08), so that a wrong cluster waveform array is not trusted."""
    label = op['label']
    f = op['ampfactor']
    if f != 1:
        ctx.probe('factor')
    ld = lambda base: np.load(_find(out, base, label))  # noqa
    ns, nt, nc = model.n_spikes, model.n_templates, model.n_channels
    wmi = np.asarray(model.wmi, dtype=np.float64)
    if src_gt is not None and getattr(src_gt[1], 'wm_dtype', 'float64') == 'float64':
        # source written by the dataset world: the inverse whitening matrix from the ground truth
        # (what an earlier session cached in the folder is not trusted)
        g_ = src_gt[1]
        wmi = np.asarray(g_.wmi_file if g_.wmi_file is not None else (
            np.linalg.inv(g_.wm) if g_.wm is not None else np.eye(nc)), dtype=np.float64)
        ctx.probe('inverse_whitening_from_ground_truth')
    pos = np.asarray(model.channel_positions, dtype=np.float64)
    cprobes = np.asarray(model.channel_probes)
    st = np.asarray(model.spike_templates).astype(np.int64)
    sc = np.asarray(model.spike_clusters).astype(np.int64)
    amps = np.asarray(model.amplitudes, dtype=np.float64)
    sr = model.sample_rate
    ncw = min(model.n_closest_channels, nc)
    curated = not np.array_equal(sc, st)
    n_clu = int(sc.max()) + 1 if curated else nt
    Tdata = np.asarray(model.sparse_templates.data, dtype=np.float64)
    Cdata = np.asarray(model.sparse_clusters.data, dtype=np.float64)
    if Cdata.shape[0] != n_clu:
        ctx.fail('cluster-waveform-array-length', {'got': int(Cdata.shape[0]), 'expected': n_clu})
    if src_gt is not None and curated:
        d_, g_ = src_gt
        R = ref.DatasetRef(d_, g_, n_closest=model.n_closest_channels,
                           threshold=model.amplitude_threshold)
        cands, amb = ref.reference_cluster_waveforms(
            R, sc, st, np.asarray(g_.tmpl_data, dtype=np.float64), Cdata.shape[1], nc)
        scale_ = max(float(np.abs(np.asarray(g_.tmpl_data)).max()), 1e-300)
        for c_ in range(n_clu):
            if c_ in amb:
                ctx.skipped['ambiguous-channel-list'] += 1
                continue
            ok_ = any(np.all(np.abs(Cdata[c_] - e_) <= 1e-6 * scale_) for e_ in cands[c_])
            ctx.check(ok_, 'cluster-waveform-not-the-weighted-mean-of-its-templates',
                      lambda: {'cluster': c_, 'n_candidates': len(cands[c_])})
        ctx.probe('cluster_waveforms_recomputed_from_ground_truth')
    for kind, data, ids, n in (('templates', Tdata, st, nt), ('clusters', Cdata, sc, n_clu)):
        un = np.stack([data[i] @ wmi for i in range(n)])
        au = (un.max(axis=1) - un.min(axis=1)).max(axis=1)
        sa = au[ids] * amps
        means = np.full(n, np.nan)
        for i in range(n):
            m = ids == i
            if m.any():
                means[i] = sa[m].mean()
        if np.isnan(means).any() and kind == 'clusters':
            ctx.probe('empty_cluster_id')
        W = ld(kind + '.waveforms.npy')
        WC = ld(kind + '.waveformsChannels.npy')
        A = ld(kind + '.amps.npy')
        ctx.check(W.shape == (n, data.shape[1], ncw) and WC.shape == (n, ncw),
                  kind + '-waveforms-shape', lambda: {'W': list(W.shape), 'WC': list(WC.shape),
                                                      'ncw': ncw})
        ctx.check(ref.close(A, means * f, 1e-5), kind + '-amps',
                  lambda: {'got': _desc(A), 'expected': _desc(means * f)})
        pp = data.max(axis=1) - data.min(axis=1)
        for i in range(n):
            mx = pp[i].max()
            cand = np.nonzero(pp[i] >= mx - 1e-12 * max(mx, 1e-300))[0]
            if len(cand) != 1:
                ctx.skipped['ambiguous-peak'] += 1
                continue
            peak = int(cand[0])
            ok, k_assert = _nearest_ok(WC[i], peak, pos, cprobes, ncw)
            if k_assert < ncw:
                ctx.probe('few_channels_on_probe')
            ctx.check(ok, kind + '-waveform-channels-not-nearest-on-peak-probe',
                      lambda: {'id': i, 'listed': WC[i].tolist(), 'peak': peak,
                               'probe_of_peak': int(cprobes[peak])})
            exp = un[i][:, WC[i]] * (means[i] / au[i] if au[i] > 0 else np.nan) * f
            scale = np.nanmax(np.abs(exp)) if np.isfinite(exp).any() else 1.0
            ctx.check(ref.close(W[i], exp, 1e-4, atol_scale=max(float(scale), 1e-300)),
                      kind + '-waveforms-not-unwhitened-rescaled',
                      lambda: {'id': i, 'got': _desc(W[i]), 'expected': _desc(exp)})
        if kind == 'templates':
            SA = ld('spikes.amps.npy')
            ctx.check(ref.close(SA, sa * f, 1e-5), 'spikes-amps',
                      lambda: {'got': _desc(SA), 'expected': _desc(sa * f)})
    # cluster channels, depths, durations
    CC = ld('clusters.channels.npy')
    CD = ld('clusters.depths.npy')
    PT = ld('clusters.peakToTrough.npy')
    pp = Cdata.max(axis=1) - Cdata.min(axis=1)
    for i in range(n_clu):
        mx = pp[i].max()
        cand = np.nonzero(pp[i] >= mx - 1e-12 * max(mx, 1e-300))[0]
        has_spikes = bool((sc == i).any())
        if not has_spikes:
            if curated:
                ctx.check(np.isnan(CD[i]), 'cluster-depth-of-empty-id-not-nan',
                          lambda: {'id': i, 'got': float(CD[i])})
                ctx.check(np.isnan(PT[i]), 'cluster-duration-of-empty-id-not-nan',
                          lambda: {'id': i, 'got': float(PT[i])})
            # uncurated: an unused template id is reported with its peak channel's depth; the
            # statement's "ids without spikes" is read as the ids emptied by curation
            continue
        ctx.check(int(CC[i]) in cand, 'cluster-peak-channel', lambda: {'id': i, 'got': int(CC[i])})
        if len(cand) == 1:
            ctx.check(abs(CD[i] - pos[cand[0], 1]) <= 1e-9 * max(1.0, abs(pos[cand[0], 1])),
                      'cluster-depth-not-depth-of-peak-channel',
                      lambda: {'id': i, 'got': float(CD[i]), 'expected': float(pos[cand[0], 1])})
            w = Cdata[i][:, cand[0]]
            if (w == w.max()).sum() == 1 and (w == w.min()).sum() == 1:
                e = (int(np.argmax(w)) - int(np.argmin(w))) / sr * 1e3
                ctx.check(abs(PT[i] - e) <= 1e-9 * max(1.0, abs(e)), 'cluster-duration',
                          lambda: {'id': i, 'got': float(PT[i]), 'expected': e})
    # spike depths
    SD = ld('spikes.depths.npy')
    if model.sparse_features is None:
        ctx.probe('no_features')
        exp = CD[sc]
        ctx.check(ref.close(SD, exp.astype(np.float32), 1e-6), 'spike-depths-without-features',
                  lambda: {'got': _desc(SD), 'expected': _desc(exp)})
    else:
        ctx.probe('features')
        F = np.asarray(model.sparse_features.data)  # (n, nloc, npcs)
        cols = np.asarray(model.sparse_features.cols).astype(np.int64)
        if src_gt is not None and src_gt[1].pc_features is not None \
                and src_gt[1].feat_rows is None:
            # source written by the dataset world: the feature store as WRITTEN (n, npcs, nloc), so
            # that the loader's own orientation of the array is not trusted
            F = np.transpose(np.asarray(src_gt[1].pc_features), (0, 2, 1))
            cols = np.asarray(src_gt[1].pc_ind).astype(np.int64)
            ctx.probe('spike_depths_from_ground_truth_features')
        fpos = np.maximum(F[:, :, 0], 0).astype(np.float64) ** 2     # (ns, nloc)
        ych = pos[:, 1][cols[st]]                                      # (ns, nloc)
        den = fpos.sum(axis=1)
        exp = np.full(ns, np.nan)
        okd = den > 0
        exp[okd] = (ych[okd] * fpos[okd]).sum(axis=1) / den[okd]
        if ns >= 50000:
            ctx.probe('batch_boundary_size')
        ctx.check(ref.close(SD, exp, 1e-4, atol_scale=max(float(np.abs(pos[:, 1]).max()), 1.0)),
                  'spike-depths-feature-weighted', lambda: {'got': _desc(SD),
                                                            'expected': _desc(exp)})
    # raw indices
    RI = ld('channels.rawInd.npy')
    if orig_maps is not None:
        off = 0
        for k, cmap in enumerate(orig_maps):
            blk = RI[off:off + len(cmap)]
            ctx.check(_aeq(blk.astype(np.int64), cmap), 'rawInd-not-original-channel-map-of-probe',
                      lambda: {'probe': k, 'got': blk.tolist(), 'expected': cmap.tolist()})
            off += len(cmap)
    elif len(np.unique(cprobes)) == 1:
        ctx.check(_aeq(RI.astype(np.int64), np.asarray(model.channel_mapping).astype(np.int64)),
                  'rawInd-not-channel-map', lambda: {'got': _desc(RI)})


# --------------------------------------------------------------------------------------------------
# Execution
# --------------------------------------------------------------------------------------------------

def execute(plan, ctx):
    seams.import_phylib()
    cfg = plan['cfg']
    knobs = dict(cfg.get('knobs', {}))
    d = cfg.get('dataset')
    if d and d['knobs'].get('chunk'):
        knobs['chunk_duration'] = d['knobs']['chunk'] / d['sr']
    counter = {}
    with seams.installed(listing=cfg['listing'], draw=cfg['draw'], uuid_seed=cfg['uuid_seed'],
                         seed=cfg['seed'], counter=counter, knobs=knobs):
        try:
            run_ops(plan, ctx, cfg)
        finally:
            for k, v in counter.items():
                ctx.fault(k, v)


def run_ops(plan, ctx, cfg):
    from phylib.io.merge import Merger
    from phylib.io.alf import EphysAlfCreator
    from phylib.io.model import load_model
    prop = ctx.prop
    root = ctx.scratch()
    models = []

    def closeall():
        for m in models:
            try:
                m.close()
            except Exception:
                pass
    ctx.on_cleanup(closeall)

    model = None
    merger = None
    src_dir = None
    src_written = None
    orig_maps = None
    out_models = {}
    creators = {}
    n_converts = 0
    export_memo = {}
    src_gt = None
    n_probes = 1
    probes = None
    if 'probes' in cfg:
        probes = [Probe(i, c, root) for i, c in enumerate(cfg['probes'])]
        ctx.op('write_probes')
    else:
        d = cfg['dataset']
        g = world.build_gt(d)
        src_dir = root / 'source'
        if d['present']['probes'] and d['n_probes'] > 1:
            # a probe table is only ever written by the Merger, whose channel maps are
            # block-structured by probe (DESIGN.md 5.2): keep this source well-formed
            rs0 = np.random.RandomState((d['seed'] + 3) % (2 ** 32))
            cm = np.zeros(d['nc'], dtype=np.int64)
            orig_maps = []
            for pr in np.unique(g.probes):
                ind = np.nonzero(g.probes == pr)[0]
                loc = rs0.permutation(len(ind))
                cm[ind] = ind[0] + loc
                orig_maps.append(loc.astype(np.int64))
            g.chmap = cm
        params = world.write_dataset(d, g, src_dir)
        src_gt = (d, g)
        ex = d['extras']
        rs = np.random.RandomState((d['seed'] + 5) % (2 ** 32))
        if ex['ks_label']:
            with open(src_dir / 'cluster_KSLabel.tsv', 'w', newline='') as f:
                wr = csv.writer(f, delimiter='\t')
                wr.writerow(['cluster_id', 'KSLabel'])
                for c in np.unique(g.sclusters):
                    wr.writerow([int(c), ['good', 'mua'][int(rs.randint(0, 2))]])
        if ex['temp_wh']:
            (src_dir / 'temp_wh.dat').write_bytes(bytes(rs.randint(0, 256, size=64).tolist()))
        if ex['channel_labels']:
            np.save(src_dir / 'channel_labels.npy', rs.randint(0, 4, size=d['nc']))
        if ex.get('linked_ids') and d['present']['sclusters']:
            # the id files are symbolic links into a shared store next to the dataset folder
            store_ = root / 'id_store'
            store_.mkdir(exist_ok=True)
            for nm_ in ('spike_clusters.npy', 'spike_templates.npy'):
                if (src_dir / nm_).exists() and not (src_dir / nm_).is_symlink():
                    os.replace(str(src_dir / nm_), str(store_ / nm_))
                    os.symlink(str(store_ / nm_), str(src_dir / nm_))
            ctx.probe('source_id_files_are_symbolic_links')
        if ex.get('params_symlink'):
            # the parameter file is shared between sortings: a symbolic link into another folder
            shared_ = root / 'shared_params'
            shared_.mkdir(exist_ok=True)
            if not (src_dir / 'params.py').is_symlink():
                os.replace(str(src_dir / 'params.py'), str(shared_ / 'params_ks.py'))
                os.symlink(str(shared_ / 'params_ks.py'), str(src_dir / 'params.py'))
            ctx.probe('source_params_file_is_a_symbolic_link')
        if ex.get('alf_rawind'):
            # an ALF-named copy of the channel map next to the KiloSort files (the loader prefers
            # channel_map.npy; the export must still write its own channels.rawInd)
            np.save(src_dir / 'channels.rawInd.npy', np.asarray(g.chmap))
        if ex['drift']:
            np.save(src_dir / 'drift.times.npy', np.arange(5.0))
            np.save(src_dir / 'drift.um.npy', rs.normal(size=(5, 3)))
            np.save(src_dir / 'drift_depths.um.npy', np.arange(3.0))
        n_probes = d['n_probes'] if d['present']['probes'] else 1
        if n_probes > 1:
            ctx.probe('multi_probe_table')
        if (d['nt'] - 1) in d['unused_templates']:
            ctx.probe('highest_template_unused')
        ctx.op('write_dataset')
        src_written = world.snapshot(src_dir)
        if d.get('poison'):
            ctx.probe('all_nan_template_in_source')

    for step, op in enumerate(plan['ops']):
        k = op['op']
        if k == 'open_probes':
            if probes is None:
                continue
            for p in probes:
                m0 = ctx.real('load', load_model, p.dir / 'params.py', owners=('C04',))
                m0.close()
            ctx.op('open_probes')
            ctx.probe('probe_folders_opened_before_the_merge')
        elif k in ('merge', 'merge_again'):
            if probes is None:
                continue
            if k == 'merge_again' and merger is None:
                continue
            before = [world.snapshot(p.dir) for p in probes]
            out = root / 'merged'
            if k == 'merge' and op.get('stale_output'):
                # crash fault: an earlier merge into this directory was killed after it had
                # allocated templates.npy (right shape and dtype) and before it filled it in
                out.mkdir(parents=True, exist_ok=True)
                shape = (sum(p.cfg['nt'] for p in probes), probes[0].cfg['nsw'],
                         sum(p.cfg['nc'] for p in probes))
                np.save(out / 'templates.npy',
                        np.full(shape, 7.25, dtype=probes[0].cfg['dtypes']['tmpl']))
                if op['stale_output'] == 'more':
                    np.save(out / 'spike_times.npy', np.arange(3, dtype=np.uint64))
                    np.save(out / 'spike_clusters.npy', np.zeros(3, dtype=np.int32))
                ctx.fault('killed_earlier_merge_left_files')
                ctx.probe('output_directory_holds_stale_files')
            if k == 'merge' and op.get('earlier_merge') and len(probes) >= 2:
                # history: the same output directory already holds a complete merge of a
                # DIFFERENT probe set (all probes but the last)
                m0 = ctx.real('merge', Merger([p.dir for p in probes[:-1]], out).merge,
                              owners=('C11', 'C12'))
                m0.close()
                ctx.probe('output_directory_holds_an_earlier_merge_of_other_probes')
                before = [world.snapshot(p.dir) for p in probes]
            if k == 'merge':
                merger = ctx.real('Merger', Merger, [p.dir for p in probes], out,
                                  owners=('C11', 'C12'))
            else:
                # history: the same Merger object is asked to merge a second time
                if model is not None:
                    model.close()
                ctx.probe('same_merger_run_twice')
            model = ctx.real('merge', merger.merge, owners=('C11', 'C12'))
            models.append(model)
            ctx.op(k)
            ctx.ev(step, k, sorted(world.snapshot(out).items()))
            if prop == 'C11':
                for p, b in zip(probes, before):
                    cr, de, mo = world.diff_snapshots(b, world.snapshot(p.dir))
                    ctx.check(not cr and not de and not mo, 'merge-input-directory-changed',
                              lambda: {'probe': p.index, 'created': cr, 'deleted': de,
                                       'modified': mo})
            offs = check_merge(ctx, probes, out, model)
            if prop == 'C12':
                if offs is None:
                    ctx.skipped['blocked-by-C11-clause'] += 1
                    return
                check_merge_structure(ctx, probes, out, model, offs)
            src_dir = out
            orig_maps = [p.g.chmap for p in probes]
            n_probes = len(probes)
            ctx.state(len(probes), len(set(p.cfg['nc'] for p in probes)) == 1,
                      tuple(sorted(n for p in probes for n, v in p.cfg['tsv'].items() if v))[:3],
                      tuple(p.cfg['dtypes']['find'][0] for p in probes),
                      any(p.cfg.get('curation') for p in probes), k)
            if prop == 'C14':
                ctx.probe('pipeline')
                if len(probes) >= 3:
                    ctx.probe('pipeline_k>=3')
        elif k == 'recurate_probe_and_merge':
            if probes is None or merger is None:
                continue
            # history: one input is curated again (its assignment file rewritten at the same path)
            # and the probes are merged once more, in the same process, into another directory
            pj = probes[op['probe'] % len(probes)]
            sc_new = world.apply_curation(pj.g.sclusters, pj.g.stemplates, op['ops'])
            fname = 'spike_clusters.npy'
            old_arr = np.load(pj.dir / fname)
            np.save(pj.dir / fname, sc_new.astype(old_arr.dtype).reshape(old_arr.shape))
            pj.g.sclusters = sc_new
            # (the probe's metadata files are kept consistent: no row for an id beyond its new
            # highest cluster id)
            top = int(sc_new.max())
            for name_, (field_, vals_) in list(pj.tsv.items()):
                vals_ = {c: v for c, v in vals_.items() if c <= top}
                if not vals_:
                    vals_ = {top: 'good' if field_ == 'KSLabel' else 1.5}
                with open(pj.dir / name_, 'w', newline='') as f_:
                    wr_ = csv.writer(f_, delimiter='\t')
                    wr_.writerow(['cluster_id', field_])
                    for c in sorted(vals_):
                        wr_.writerow([c, vals_[c]])
                pj.tsv[name_] = (field_, vals_)
            pj.tsv_gap_ids = [c for c in pj.tsv_gap_ids if c <= top
                              and c not in set(int(x) for x in sc_new)]
            if model is not None:
                model.close()
            out = root / 'merged2'
            before = [world.snapshot(p.dir) for p in probes]
            merger = ctx.real('Merger', Merger, [p.dir for p in probes], out, owners=('C11', 'C12'))
            model = ctx.real('merge', merger.merge, owners=('C11', 'C12'))
            models.append(model)
            ctx.op(k)
            ctx.probe('input_rewritten_between_two_merges')
            ctx.ev(step, k, sorted(world.snapshot(out).items()))
            offs = check_merge(ctx, probes, out, model)
            if prop == 'C12':
                if offs is None:
                    ctx.skipped['blocked-by-C11-clause'] += 1
                    return
                check_merge_structure(ctx, probes, out, model, offs)
            src_dir = out
        elif k == 'reopen_source':
            if model is None or probes is not None:
                continue
            model.close()
            model = ctx.real('load', load_model, src_dir / 'params.py', owners=('C04',))
            models.append(model)
            ctx.op('reopen_source')
            ctx.probe('source_opened_in_an_earlier_session')
        elif k == 'load':
            if src_dir is None:
                continue
            d = cfg['dataset']
            model = ctx.real('load', load_model, src_dir / 'params.py', owners=('C04',))
            models.append(model)
            ctx.op('load')
            if d['extras']['pre_store'] and model.traces is not None:
                np.random.seed(1)
                ctx.real('save_subset', model.save_spikes_subset_waveforms,
                         max_n_spikes_per_template=2, owners=('C03', 'C10'))
                ctx.probe('preexisting_store')
        elif k == 'convert_into_source':
            if model is None:
                continue
            before = world.snapshot(src_dir)
            creator = ctx.real('EphysAlfCreator', EphysAlfCreator, model, owners=('C13', 'C14'))
            raised = None
            alias = op.get('alias', 'same')
            target = src_dir
            if alias == 'str':
                target = str(src_dir)
            elif alias == 'symlink':
                target = root / 'link_to_source'
                if not target.exists():
                    target.symlink_to(src_dir, target_is_directory=True)
            elif alias == 'dotdot':
                (root / 'other').mkdir(exist_ok=True)
                target = root / 'other' / '..' / src_dir.name
            elif alias == 'trailing':
                target = str(src_dir) + '/'
            try:
                if op.get('force'):
                    ctx.probe('convert_into_source:force')
                    creator.convert(target, force=True)
                else:
                    creator.convert(target)
            except IOError as e:
                raised = e
            except Exception as e:
                raised = e
            ctx.op('convert_into_source', changes_state=False)
            ctx.probe('convert_into_source')
            ctx.probe('convert_into_source:' + alias)
            ctx.fault('output_is_alias_of_source:' + alias)
            if prop == 'C13':
                ctx.check(raised is not None, 'convert-into-source-not-refused')
                cr, de, mo = world.diff_snapshots(before, world.snapshot(src_dir))
                ctx.check(not cr and not de and not mo, 'refused-conversion-wrote-to-source',
                          lambda: {'created': cr, 'deleted': de, 'modified': mo})
        elif k == 'convert':
            if model is None:
                continue
            before = world.snapshot(src_dir)
            out = root / op.get('out', 'alf')
            if out.name in out_models and out_models[out.name] is not None:
                out_models[out.name].close()   # the earlier output model maps files rewritten now
            n_converts += 1
            if n_converts >= 2:
                ctx.probe('second_export_from_same_session')
                if out.exists():
                    ctx.probe('re_export_into_same_directory')
            if creators.get(id(model)) is not None and (step + cfg['seed']) % 2 == 0:
                creator = creators[id(model)]     # history: the same creator object converts again
                ctx.probe('same_creator_object_converts_again')
            else:
                creator = ctx.real('EphysAlfCreator', EphysAlfCreator, model,
                                   owners=('C13', 'C14'))
                creators[id(model)] = creator
            out_model = ctx.real('convert', creator.convert, out, force=op['force'],
                                 label=op['label'], ampfactor=op['ampfactor'],
                                 owners=('C13', 'C14'))
            out_models[out.name] = out_model
            if out_model is not None:
                models.append(out_model)
            ctx.op('convert')
            ctx.ev(step, 'convert', sorted(world.snapshot(out).items()))
            if model.traces is not None:
                ctx.probe('raw')
            elif cfg.get('dataset', {}).get('raw_missing'):
                ctx.probe('params_name_a_missing_raw_file')
                ctx.fault('raw_file_absent')
            if not np.array_equal(model.spike_clusters, model.spike_templates):
                ctx.probe('curated')
            if model.sparse_features is None:
                ctx.probe('no_features')
            if prop == 'C13':
                check_export_structure(ctx, model, src_dir, out, op, before, n_probes, out_model,
                                       memo=export_memo,
                                       written=src_written if probes is None else None)
            elif prop == 'C14':
                check_export_values(ctx, model, out, op, orig_maps,
                                    src_gt if probes is None else None)
            sc_ = np.asarray(model.spike_clusters)
            st_ = np.asarray(model.spike_templates)
            ctx.state(n_probes, probes is not None, bool(op['label']), model.traces is not None,
                      model.sparse_features is not None, not np.array_equal(sc_, st_),
                      op['ampfactor'] != 1, n_converts,
                      int(sc_.max()) + 1 == model.n_templates,
                      int(st_.max()) + 1 == model.n_templates,
                      min(int(sc_.max()) + 1 - len(np.unique(sc_)), 3),
                      str(np.asarray(model.channel_mapping).dtype), bool(op['force']),
                      tuple(sorted(k_ for k_, v_ in (cfg.get('dataset') or {}).get(
                          'extras', {}).items() if v_)))
        elif k == 'recurate':
            if model is None or probes is not None:
                continue
            sc = world.apply_curation(np.asarray(model.spike_clusters), np.asarray(
                model.spike_templates), op['ops'])
            ctx.real('save_spike_clusters', model.save_spike_clusters, sc.astype(np.int32),
                     owners=('C08', 'C10'))
            model.close()
            model = ctx.real('load', load_model, src_dir / 'params.py', owners=('C04',))
            models.append(model)
            ctx.op('recurate')
            ctx.ev(step, 'recurate', sc)
        else:
            raise ValueError(k)
