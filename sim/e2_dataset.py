# -*- coding: utf-8 -*-
"""E2 — the dataset world (C03 model route, C04, C05, C06, C08, C09, C10).

A sorter actor writes a dataset directory from a seeded ground truth; the real TemplateModel loads,
queries, curates, saves, closes and reloads it while the simulator owns directory-listing order, the
selector's random draws and the chunk / neighbourhood knobs, and injects storage faults (absent
optional files, poisoned values, torn metadata and subset-store files, foreign malformed metadata,
dirty reloads). Oracles: sim.ref.DatasetRef + a dictionary model of the persisted curation state.
"""

import copy
import csv
import io
import os
import random

import numpy as np

from . import seams, world, ref
from .core import RealCodeError, Discard
from .recording import window_ref

NAME = 'E2'
LOAD_OWNERS = ('C04', 'C08', 'C10')

COMPONENTS = {
    'real': ['phylib.io.model: load_model, get_template_params, TemplateModel (all loaders, '
             'get_template*, get_features, get_template_features, get_waveforms, get_depths, '
             'get_amplitudes_true, summaries, get_merge_map, cluster_waveforms, save_metadata, '
             'save_spike_clusters, save_spikes_subset_waveforms, close), from_sparse',
             'phylib.io.traces readers and waveform export, phylib.io.array.SpikeSelector, '
             'phylib.utils._misc read_tsv/_write_tsv_simple/read_python',
             'kernel file system (per-run scratch directory), np.load/np.save/np.memmap, csv'],
    'stub': ['directory listing order (os.scandir/os.listdir wrapper: sorted / reversed / shuffled / '
             'rotated)', 'np.random.choice (simulator draw strategy)', 'tqdm disabled',
             'knobs: DEFAULT_CHUNK_DURATION, TemplateModel.n_closest_channels, amplitude_threshold'],
}
STATE_MEASURE = ('(naming-scheme bits, optional-file presence bits, dense/sparse, curated?, #empty ids '
                 'bucket, highest id empty?, store present/torn/absent, #metadata fields bucket, '
                 'model live/closed/retired count)')
RULE = {
    'C03': ('E2 part: dense datasets with raw data; histories load -> save_spikes_subset_waveforms -> '
            'close -> [tear a store file] -> reload -> get_waveforms for stored and non-stored spikes; '
            'every returned window compared with the loop reference on the permuted raw data'),
    'C04': ('a plan = a drawn dataset configuration (KS/ALF names per family, (n,) vs (n,1), presence '
            'of each optional file, dense/sparse, dtypes, extra raw channels, permuted channel map, '
            'poisoned values) + listing strategy + ops load / read traces / second load / close / '
            'reload / remove an optional file / swap two spike times; attributes compared with the '
            'ground truth, effects judged from hash snapshots'),
    'C05': 'loaded states of dense and sparse datasets; get_template and channel queries vs reference',
    'C06': ('loaded states with feature stores (with/without row table) and the waveform route reached '
            'through save_subset/close/reload; from_sparse, get_features, get_template_features'),
    'C08': ('curation histories (merge/split/reassign/empty/undo) saved and (dirty-)reloaded; merge_map, '
            'empty ids, n_clusters, cluster waveforms after every reload'),
    'C09': 'loaded fresh and curated states; amplitude chain, means, peak channels, durations, depths',
    'C17': ('E2 part: the model-level user of the selector - datasets with raw data whose chunk grid '
            '(knob) has more or fewer than 20 chunks; after each save_spikes_subset_waveforms the '
            'stored spike ids are checked against the selector constraints on that grid'),
    'C10': ('histories <= 24 ops over save_spike_clusters / save_metadata / foreign metadata files / '
            'save_spikes_subset_waveforms / close / reload / dirty_reload with torn-file faults, against '
            'a dictionary reference model'),
    '*': 'distinct = distinct plan digests; non-trivial = >= 1 clause evaluated after >= 1 state-changing op',
}
ASSUMPTIONS = [
    'well-formed datasets as defined in DESIGN.md 5.2 (every squeezed dimension >= 2, spikes inside '
    'the recording, distinct channel positions, non-numeric non-empty strings without line breaks)',
    'ambiguous cases (ties in amplitude / distance / spike count, thresholds hit exactly, tiny '
    'eigenvalue gaps) are skipped and counted, never asserted',
    'explicit channel lists passed to get_template: only the waveform columns and the echoed list are '
    'asserted (ordering/amplitude clauses speak about the automatic list)',
]
EXPECTED_PROBES = {
    'C04': ['alf_names', 'colvec', 'no_clusters_file', 'wmi_created', 'second_load', 'nonmonotonic',
            'sparse_templates', 'raw_extra_channels', 'poisoned', 'listing:shuffled', 'nan_template',
            'template_with_nan_channel',
            'inf_of_both_signs_in_one_file', 'alf_label_in_names', 'raw_cbin', 'raw_npy',
            'loaded_under_second_listing_order', 'both_names_of_a_family_present',
            'unreadable_attribute_file', 'traces_read', 'params_name_a_missing_raw_file',
            'traces_read_with_channel_selector',
            'alf_times_without_samples', 'alf_times_single_precision',
            'alf_seconds_in_another_clock'],
    'C05': ['sparse', 'dense', 'neighbourhood_bites', 'multi_shank', 'threshold_bites',
            'explicit_channels', 'minus_one_column', 'signal_free_column', 'all_zero_template',
            'queried_after_reload', 'wmi_file_left_by_earlier_load'],
    'C06': ['row_table', 'unknown_channel', 'empty_spike_list', 'waveform_route', 'tf_row_table',
            'unsorted_spikes', 'same_table_densified_twice', 'very_large_unknown_channel_id',
            'minus_one_inside_column_rows', 'waveform_route_request_with_absent_spikes',
            'waveform_route_two_spikes', 'waveform_route_spike_storing_other_channels',
            'waveform_route_unsorted_request'],
    'C08': ['multi_template_cluster', 'empty_id', 'undo', 'dirty_reload', 'highest_template_unused',
            'single_spike_cluster', 'tie_in_spike_counts', 'in_memory_curation',
            'unwhitened_cluster_mean_checked'],
    'C09': ['empty_highest_id', 'curated', 'depths', 'zero_positive_part', 'batch_boundary_size'],
    'C10': ['torn_metadata', 'torn_store', 'foreign_malformed', 'repeated_save', 'dirty_reload',
            'store_checked', 'string_with_delimiter', 'none_dropped',
            'legacy_csv_names_a_saved_field', 'foreign_first_row_without_cluster_id',
            'foreign_id_column_not_first'],
    'C03': ['torn_store', 'store_route', 'raw_fallback_route', 'non_stored_spike'],
    'C17': ['more_than_20_chunks', 'model_level_selection_checked'],
}

STRINGS = ['good', 'mua', 'noise', 'hello world', 'a\tb', 'x,y', 'say "hi"', "it's", 'ünïcode',
           ' lead', 'trail ', '#tag', 'a;b', '12abc', 'one two\tthree', '"quoted"', "''", 'é,\t"']


# --------------------------------------------------------------------------------------------------
# Generation
# --------------------------------------------------------------------------------------------------

def _gen_values(rng, ids):
    vals = {}
    kind = rng.choice(['int', 'float', 'str', 'mixed'])
    for c in ids:
        if rng.random() < 0.15:
            vals[str(c)] = None
            continue
        k = kind if kind != 'mixed' else rng.choice(['int', 'float', 'str'])
        if k == 'int':
            vals[str(c)] = rng.choice([0, 1, -3, 42, 10 ** 12, rng.randint(-100, 100),
                                       2 ** 53 + 1, 1700000000123456789, -(2 ** 63) + 3])
        elif k == 'float':
            vals[str(c)] = rng.choice([0.5, -1.25, 3.0, 1e-5, 123.456, 1e20,
                                       round(rng.uniform(-10, 10), 4)])
        else:
            vals[str(c)] = rng.choice(STRINGS)
    return vals


def _gen_template_query(rng, cfg):
    q = {'op': 'q_template', 't': rng.randrange(cfg['nt']), 'unwhiten': rng.random() < 0.6,
         'thr': rng.choice([None, None, 0, 0.05, 0.2, 0.5, 0.8, 1.0]), 'chans': None}
    if rng.random() < 0.2 and not cfg['sparse']:
        k = rng.randint(1, cfg['nc'])
        q['chans'] = rng.sample(range(cfg['nc']), k)
    return q


def gen(rng, prop, tier):
    big = tier == 'thorough'
    flavor = {'C04': 'general', 'C05': 'sparse_ok'}.get(prop, 'dense')
    cfg = world.gen_dataset_cfg(rng, flavor, big=big)
    cfg['listing'] = rng.choice(['sorted', 'reversed', 'shuffled', 'rotated'])
    cfg['draw'] = rng.choice(seams.DRAW_STRATEGIES)
    ops = []
    p = cfg['present']
    ns, nt, nc = cfg['ns'], cfg['nt'], cfg['nc']
    if prop != 'C04' and cfg['dtypes'].get('amps') == 'float16':
        # half-precision amplitude files only where values are compared with the file (C04): sums
        # and means in half precision depend on the evaluation order far beyond any tolerance
        cfg['dtypes']['amps'] = 'float32'
    xr = random.Random('side-%s-%d' % (prop, cfg['seed']))   # later additions draw from a side
    #                                                            stream: older plans keep their shape
    if prop == 'C04':
        if p['raw'] and xr.random() < 0.12:
            cfg['dat_path_tuple'] = True       # dat_path = ('a.bin', 'b.bin') in params.py
        if cfg['names']['times'] == 'alf' and not p.get('samples_file') and rng.random() < 0.35:
            p['raw'] = False
            cfg['raw'] = None
            cfg['knobs'].pop('chunk', None)
            cfg['alf_times_f32'] = rng.choice([0, 1000, 2 ** 23 + 11, 2 ** 23 + 2 ** 22 + 5])
        if p['raw'] and rng.random() < 0.15:
            cfg['decoy_cwd'] = True
        if p['raw'] and cfg['raw'].get('format', 'flat') == 'flat' and rng.random() < 0.12:
            cfg['raw']['symlinked'] = True
        if rng.random() < 0.08:
            cfg['dir_name'] = rng.choice(['mouse[12]', 'run*', 'a?b', 'x[!y]z', 'probe{0,1}'])
        if rng.random() < 0.08:
            cfg['params_symlink'] = True
        if cfg['names']['times'] == 'alf' and p.get('samples_file') and rng.random() < 0.4:
            cfg['alf_clock'] = [rng.choice([0.0, 12.5, 3600.25]), rng.choice([0.0, 1e-6, -3e-5])]
        if any(po['kind'] == 'nan_column' for po in cfg['poison']) and rng.random() < 0.6:
            # ... in a curated dataset: the loader computes cluster waveforms from the templates
            cfg['curation'] = world.gen_curation_ops(rng, rng.randint(1, 3))
            p['sclusters'] = True
        if rng.random() < 0.08:
            ops = [{'op': 'swap_times', 'i': rng.randrange(ns)}, {'op': 'load'}]
        else:
            ops = [{'op': 'load'}]
            for _ in range(rng.randint(0, 6)):
                r = rng.random()
                if r < 0.35 and p['raw']:
                    ops.append({'op': 'q_traces', 'seed': rng.randint(0, 10 ** 6)})
                elif r < 0.5:
                    ops.append({'op': 'load_again'})
                elif r < 0.6:
                    ops.append({'op': 'load_other_listing',
                                'listing': rng.choice(['sorted', 'reversed', 'shuffled',
                                                       'rotated'])})
                elif r < 0.68:
                    ops += [{'op': 'close'}, {'op': 'reload'}]
                elif r < 0.75 and cfg['names']['times'] == 'ks':
                    # the parameter file is edited between two sessions of one process (within the
                    # same second: its modification time does not change)
                    ops += [{'op': 'close'},
                            {'op': 'rewrite_params', 'sr': rng.choice([12345.0, 20000.0, 40000.5])},
                            {'op': 'reload'}]
                elif r < 0.9:
                    ops += [{'op': 'close'},
                            {'op': 'remove_optional',
                             'what': rng.choice(['similar', 'amps', 'wmi', 'wm', 'shanks', 'probes',
                                                 'sclusters_created'])},
                            {'op': 'reload'}]
                else:
                    ops.append({'op': 'dirty_reload'})
    elif prop == 'C05':
        if not p['wm'] and rng.random() < 0.3:
            cfg['wmi_only'] = True
        if not cfg['sparse'] and nc >= 3 and rng.random() < 0.1:
            # a dead channel: NaN over the whole waveform of one template (whitened requests only:
            # unwhitening mixes the NaN into every channel)
            cfg['poison'].append({'name': 'tmpl', 'kind': 'nan_column', 't': rng.randrange(nt),
                                  'ch': rng.randrange(nc), 'val': 'nan'})
        ops = [{'op': 'load'}]
        for _ in range(rng.randint(1, 10)):
            r = rng.random()
            if r < 0.72:
                ops.append(_gen_template_query(rng, cfg))
                if cfg['poison'] and rng.random() < 0.3:
                    po = rng.choice(cfg['poison'])
                    ops[-1]['t'] = rng.choice(po['ids']) if 'ids' in po else po['t']
                    ops[-1]['chans'] = None
            elif r < 0.87:
                ops.append({'op': 'q_cluster_channels', 'c': rng.randrange(nt)})
            elif r < 0.95:
                # the same directory loaded again: loading leaves files behind (inverse
                # whitening matrix, cluster copy) that the next session reads
                ops += [{'op': 'close'}, {'op': 'reload'}]
            else:
                ops.append({'op': 'dirty_reload'})
    elif prop == 'C06':
        wf_route = rng.random() < 0.3
        if wf_route:
            p['features'] = False
            p['feature_rows'] = False
            p['raw'] = True
            cfg['nsw'] = max(cfg['nsw'], 3)
            if cfg['raw'] is None:
                cfg['raw'] = {'extra_channels': 0, 'dtype': 'int16', 'n_files': 1, 'ext': '.dat',
                              'offset': 0, 'tail': 12, 'permute_map': False}
            ops = [{'op': 'load'}, {'op': 'save_subset', 'n': rng.choice([3, 5, 50]),
                                     'factor': rng.choice([1.0, 2.5])}]
            for _ in range(rng.randint(1, 3)):
                ops.append({'op': 'q_features_wf', 't': rng.randrange(nt), 'k': rng.randint(1, 3)})
            ops += [{'op': 'close'}, {'op': 'reload'}]
            for _ in range(rng.randint(1, 3)):
                ops.append({'op': 'q_features_wf', 't': rng.randrange(nt), 'k': rng.randint(1, 3)})
        else:
            if rng.random() < 0.4:
                # curated: features are looked up through the spike's TEMPLATE, not its cluster
                cfg['curation'] = world.gen_curation_ops(rng, rng.randint(1, 3))
                p['sclusters'] = True
            p['features'] = True if rng.random() < 0.9 else p['features']
            if p['features'] and cfg['nloc_f'] is None:
                cfg['nloc_f'] = rng.randint(2, min(nc, 6))
            p['tfeatures'] = True if rng.random() < 0.6 else p['tfeatures']
            if p['tfeatures'] and 'nloc_tf' not in cfg:
                cfg['nloc_tf'] = rng.randint(2, nt)
            if p['tfeatures'] and rng.random() < 0.2:
                cfg['tfeat_nonfinite'] = [rng.random() for _ in range(rng.randint(1, 4))]
            if p['tfeatures'] and rng.random() < 0.15:
                # a template-feature store WITHOUT its column table, narrower or wider than the
                # number of templates
                cfg['tf_no_ind'] = rng.choice([max(2, nt - 2), nt, nt + 2])
            if p['features'] and xr.random() < 0.15:
                cfg['feat_no_ind'] = True     # a feature store WITHOUT its column table
            ops = [{'op': 'load'}]
            for _ in range(rng.randint(1, 8)):
                r = rng.random()
                if r < 0.55:
                    k = rng.choice([0, 1, 2, 5, min(ns, 20)])
                    spikes = sorted(rng.sample(range(ns), min(k, ns)))
                    if rng.random() < 0.2:
                        rng.shuffle(spikes)
                    chans = rng.sample(range(nc + 3), rng.randint(1, min(nc, 6)))
                    if rng.random() < 0.12:
                        # an unknown channel id far beyond the probe (sparse lookup tables)
                        chans.insert(rng.randrange(len(chans) + 1), rng.choice([1000, 100000]))
                    if cfg.get('feat_no_ind') and xr.random() < 0.5:
                        # exactly the stored channels, in another order
                        chans = list(range(cfg['nloc_f']))
                        xr.shuffle(chans)
                        if xr.random() < 0.3:
                            chans = sorted(chans, reverse=True)
                    ops.append({'op': 'q_features', 'spikes': spikes, 'chans': chans})
                elif r < 0.8:
                    ops.append({'op': 'q_tfeatures', 'seed': rng.randint(0, 10 ** 6),
                                'k': rng.choice([0, 1, 3, 10])})
                else:
                    ops.append({'op': 'q_from_sparse', 'seed': rng.randint(0, 10 ** 6)})
    elif prop == 'C08':
        if rng.random() < (0.01 if big else 0.004):
            # more than 65535 spikes of one template, ids stored in 16 bits
            cfg['ns'] = ns = 70000
            cfg['skew'] = 0.95
            cfg['dtypes']['ids'] = 'uint16'
            cfg['unused_templates'] = []
            p.update({'features': False, 'tfeatures': False, 'raw': False, 'attrs': False,
                      'reordered': False})
            cfg['raw'] = None
            cfg['curation'] = [{'k': 'merge', 'a': 0, 'b': 1, 'frac': 0.5, 'seed': 1, 'gap': 0}]
            p['sclusters'] = True
        if rng.random() < 0.15:
            # the assignments live under their ALF name only
            cfg['names']['sclusters'] = 'alf'
            p['sclusters'] = True
        if rng.random() < 0.5:
            cfg['curation'] = world.gen_curation_ops(rng, rng.randint(1, 3))
        ops = [{'op': 'load'}]
        for _ in range(rng.randint(1, 5)):
            ops.append({'op': 'curate', 'ops': world.gen_curation_ops(rng, rng.randint(1, 3))})
            r = rng.random()
            if r < 0.7:
                ops += [{'op': 'close'}, {'op': 'reload'}]
            elif r < 0.9:
                ops.append({'op': 'dirty_reload'})
    elif prop == 'C09':
        p['amps'] = True
        if not p['wm'] and rng.random() < 0.25:
            cfg['wmi_only'] = True
        if rng.random() < (0.02 if big else 0.006):
            # get_depths walks the spikes in batches of 50000: sizes around the batch bound
            cfg['ns'] = ns = rng.choice([50000, 50001, 50002, 100001])
            p['features'] = True
            p['feature_rows'] = False
            p['tfeatures'] = False
            p['raw'] = False
            cfg['raw'] = None
            cfg['nloc_f'] = 2
            cfg['npcs'] = 2
        if rng.random() < 0.7:
            p['features'] = True
            p['feature_rows'] = False
            if cfg['nloc_f'] is None:
                cfg['nloc_f'] = rng.randint(2, min(nc, 6))
            if rng.random() < 0.15:
                # a row table is there, and it lists every spike
                p['feature_rows'] = True
                cfg['feat_rows_complete'] = True
                cfg['feat_rows_perm'] = False    # (C09's domain has no permuted row tables)
        if rng.random() < 0.5:
            cfg['curation'] = world.gen_curation_ops(rng, rng.randint(1, 4))
        ops = [{'op': 'load'}]
        for _ in range(rng.randint(1, 4)):
            r = rng.random()
            if r < 0.6:
                ops.append({'op': 'q_summaries', 'factor': rng.choice([1.0, 2.34e-6, 3, 0.5]),
                            'use': rng.choice(['templates', 'clusters'])})
            else:
                ops.append({'op': 'curate', 'ops': world.gen_curation_ops(rng, rng.randint(1, 2))})
                ops += [{'op': 'close'}, {'op': 'reload'}]
                ops.append({'op': 'q_summaries', 'factor': rng.choice([1.0, 2.5]),
                            'use': 'clusters'})
    elif prop == 'C17':
        # the model-level user of the selector: save_spikes_subset_waveforms keeps 20 chunks of
        # the recording's chunk grid and at most n spikes per template
        p['raw'] = True
        if cfg['raw'] is None:
            cfg['raw'] = {'extra_channels': 0, 'dtype': 'int16', 'n_files': rng.choice([1, 2]),
                          'ext': '.dat', 'offset': 0,
                          'tail': rng.randint(1, 20) if rng.random() < 0.9 else rng.choice([0, -1]),
                          'permute_map': rng.random() < 0.5}
        cfg['raw']['format'] = 'flat'
        cfg['knobs']['chunk'] = rng.choice([3, 5, 11, 50, 200, 100000])
        cfg['ns'] = ns = max(ns, 30)
        if rng.random() < (0.01 if big else 0.004):
            # more spike ids than 16 bits hold, template ids stored in 16 bits
            cfg['ns'] = ns = 66000
            cfg['dtypes']['ids'] = 'uint16'
            cfg['ties'] = True
            cfg['nc'] = min(cfg['nc'], 4)
            cfg['raw']['extra_channels'] = 0
            cfg['raw']['n_files'] = 1
            cfg['knobs']['chunk'] = 100000
            p.update({'features': False, 'tfeatures': False, 'attrs': False, 'reordered': False})
        if rng.random() < 0.5:
            # curated: the budget is per TEMPLATE whatever the cluster assignment says
            cfg['curation'] = world.gen_curation_ops(rng, rng.randint(1, 3))
            p['sclusters'] = True
        ops = [{'op': 'load'}]
        for _ in range(rng.randint(1, 3)):
            ops.append({'op': 'save_subset', 'n': rng.choice([1, 2, 3, 5, 50]),
                        'factor': 1.0})
    elif prop in ('C10', 'C03'):
        if prop == 'C03' or rng.random() < 0.6:
            p['raw'] = True
            if cfg['raw'] is None:
                cfg['raw'] = {'extra_channels': rng.choice([0, 2]),
                              'dtype': rng.choice(['int16', 'float32', 'float64']),
                              'n_files': rng.choice([1, 2]), 'ext': '.dat', 'offset': 0,
                              'tail': rng.randint(1, 20) if rng.random() < 0.9
                              else rng.choice([0, -1]), 'permute_map': rng.random() < 0.5}
            cfg['knobs']['chunk'] = rng.choice([5, 11, 50, 200])
        cfg['dtypes']['times'] = rng.choice(['uint64', 'uint64', 'int64', 'int32', 'uint32'])
        if p['raw'] and rng.random() < 0.1:
            cfg['decoy_cwd'] = True
        if rng.random() < 0.08:
            cfg['dir_name'] = rng.choice(['mouse[12]', 'run*', 'a?b', 'x[!y]z', 'session[1]'])
        if rng.random() < 0.08:
            # a single template owns every spike (the others are stored but unused)
            keep = rng.randrange(nt)
            cfg['unused_templates'] = [t for t in range(nt) if t != keep]
        if prop == 'C10' and rng.random() < 0.15:
            # the assignments live under their ALF name only
            cfg['names']['sclusters'] = 'alf'
            p['sclusters'] = True
        far = None
        if prop == 'C10' and nt <= 100 and xr.random() < 0.15:
            # the sorter stored the assignments in 8 bits; curation later produces larger ids
            cfg['dtypes']['sclusters'] = xr.choice(['uint8', 'int8'])
            p['sclusters'] = True
            far = xr.choice([200, 300])
        if cfg['raw'] and cfg['raw']['dtype'] in ('float32', 'float64') \
                and rng.random() < 0.25:
            cfg['raw']['nonfinite'] = [[rng.random(), rng.randrange(64)]
                                       for _ in range(rng.randint(1, 4))]
        ops = [{'op': 'load'}]
        if prop == 'C03':
            for _ in range(rng.randint(1, 3)):
                ops.append({'op': 'save_subset', 'n': rng.choice([1, 3, 5, 50]),
                            'factor': rng.choice([1.0, 1.0, 2.5, 0.5])})
                if rng.random() < 0.15:
                    ops[-1]['crash_after'] = rng.choice([0, 1, 2, 5, 10, 30])
                if rng.random() < 0.5:
                    ops.append({'op': 'q_waveforms', 'seed': rng.randint(0, 10 ** 6)})
                ops.append({'op': 'close'})
                if rng.random() < 0.35:
                    ops.append({'op': 'tear', 'target': rng.choice(['waveforms', 'spikes',
                                                                    'channels']),
                                'frac': rng.choice([0.0, 0.3, 0.7, 0.95])})
                ops.append({'op': 'reload'})
                for _ in range(rng.randint(1, 3)):
                    ops.append({'op': 'q_waveforms', 'seed': rng.randint(0, 10 ** 6)})
            if rng.random() < 0.15:
                # the raw recording is archived away after the export: the store is all that is left
                ops += [{'op': 'close'}, {'op': 'remove_raw'}, {'op': 'reload'}]
                for _ in range(rng.randint(1, 3)):
                    ops.append({'op': 'q_waveforms', 'seed': rng.randint(0, 10 ** 6)})
        else:
            n_ops = rng.randint(2, 24 if not big else 36)
            fields = ['group', 'quality', 'note', 'Amplitude', 'f%d' % rng.randint(0, 9),
                      rng.choice(['i', 'in', 'inf', 'o', 'c', 'n_spikes', 'id'])]
            n_foreign = 0
            if far:
                ops += [{'op': 'curate', 'ops': [{'k': 'merge', 'a': xr.randint(0, 20),
                                                  'b': xr.randint(0, 20), 'frac': 0.5, 'seed': 1,
                                                  'far': far},
                                                 {'k': 'reassign', 'a': 0, 'b': 0, 'frac': 0.1,
                                                  'seed': xr.randint(0, 10 ** 6), 'fresh': True,
                                                  'far': far}]},
                        {'op': 'close'}, {'op': 'reload'}]
            for _ in range(n_ops):
                r = rng.random()
                if r < 0.2:
                    ops.append({'op': 'curate',
                                'ops': world.gen_curation_ops(rng, rng.randint(1, 2))})
                elif r < 0.45:
                    ids = rng.sample(range(0, nt + 6), rng.randint(0, 6))
                    ops.append({'op': 'save_metadata', 'field': rng.choice(fields),
                                'values': _gen_values(rng, ids)})
                    if rng.random() < 0.15:
                        ops.append({'op': 'tear', 'target': 'metadata',
                                    'field': ops[-1]['field'],
                                    'frac': rng.choice([0.0, 0.2, 0.5, 0.9])})
                elif r < 0.48 and not any(o.get('kind') == 'collide_csv' for o in ops):
                    # a legacy CSV with a column named like a field phylib saves: CSV files are
                    # read before TSV files, so the saved cluster_<field>.tsv must win whatever
                    # the listing order
                    f = rng.choice(fields)
                    rows = [{'cluster_id': c, f: _gen_values(rng, [0])['0'] or 'legacy'}
                            for c in rng.sample(range(0, nt + 6), rng.randint(1, 5))]
                    ops.append({'op': 'foreign', 'kind': 'collide_csv', 'ext': '.csv',
                                'name': 'cluster_groups_legacy', 'fields': [f], 'rows': rows})
                elif r < 0.58:
                    kind = rng.choice(['valid', 'valid', 'valid_blank_first', 'empty',
                                       'header_only', 'garbage', 'ragged', 'no_cluster_id',
                                       'cluster_info'])
                    n_foreign += 1
                    rows = []
                    fnames = ['x%d_%d' % (n_foreign, j) for j in range(rng.randint(1, 3))]
                    for c in rng.sample(range(0, nt + 6), rng.randint(1, 5)):
                        row = {'cluster_id': c}
                        for f in fnames:
                            if rng.random() < 0.8:
                                v = _gen_values(rng, [0])['0']
                                if v is not None:
                                    row[f] = v
                        rows.append(row)
                    fname = 'foreign%d' % n_foreign
                    if kind != 'cluster_info' and rng.random() < 0.2:
                        # short names, pieces of other names: only `cluster_info` is excluded
                        fname = rng.choice(['cluster', 'info', 'c', 'cluster_', 'cluster_inform',
                                            'luster_info', 'cluster_info_old', 'Cluster_Info'])
                        if any(o.get('name') == fname for o in ops):
                            fname = 'foreign%d' % n_foreign
                    ops.append({'op': 'foreign', 'kind': kind, 'ext': rng.choice(['.tsv', '.csv']),
                                'name': fname, 'fields': fnames, 'rows': rows})
                    if kind in ('valid', 'valid_blank_first') and rng.random() < 0.25:
                        ops[-1]['swap_delim'] = True
                    if kind == 'valid' and xr.random() < 0.3:
                        # the id column is not the first one
                        ops[-1]['id_col'] = xr.randint(1, len(fnames))
                elif r < 0.68 and p['raw']:
                    ops.append({'op': 'save_subset', 'n': rng.choice([1, 3, 5, 50]),
                                'factor': rng.choice([1.0, 2.5])})
                    if rng.random() < 0.12:
                        ops[-1]['crash_after'] = rng.choice([0, 1, 2, 5, 10, 30])
                elif r < 0.85:
                    ops += [{'op': 'close'}]
                    if p['raw'] and rng.random() < 0.15:
                        ops.append({'op': 'tear', 'target': rng.choice(['waveforms', 'spikes',
                                                                        'channels']),
                                    'frac': rng.choice([0.0, 0.4, 0.9])})
                    ops += [{'op': 'reload'}]
                elif r < 0.93:
                    ops.append({'op': 'dirty_reload'})
                else:
                    ops.append({'op': 'reload'})
            ops += [{'op': 'close'}, {'op': 'reload'}]
    else:
        raise ValueError(prop)
    return {'engine': NAME, 'cfg': cfg, 'ops': ops}


def simplify(plan):
    cfg = plan['cfg']
    for key, simple in (('listing', 'sorted'), ('draw', 'first'), ('geometry', 'line')):
        if cfg.get(key) != simple:
            p = copy.deepcopy(plan)
            p['cfg'][key] = simple
            yield p
    if cfg['colvec']:
        p = copy.deepcopy(plan)
        p['cfg']['colvec'] = []
        yield p
    if cfg.get('alf_label'):
        p = copy.deepcopy(plan)
        p['cfg']['alf_label'] = ''
        yield p
    for key in ('dual', 'unreadable_attrs'):
        if cfg.get(key):
            p = copy.deepcopy(plan)
            p['cfg'][key] = []
            yield p
            if len(cfg[key]) > 1:
                for i in range(len(cfg[key])):
                    p = copy.deepcopy(plan)
                    del p['cfg'][key][i]
                    yield p
    if cfg.get('raw') and cfg['raw'].get('format', 'flat') != 'flat':
        p = copy.deepcopy(plan)
        p['cfg']['raw']['format'] = 'flat'
        yield p
    if any(v == 'alf' for v in cfg['names'].values()):
        p = copy.deepcopy(plan)
        p['cfg']['names'] = {k: 'ks' for k in cfg['names']}
        p['cfg']['present']['samples_file'] = False
        yield p
        for k, v in cfg['names'].items():
            if v == 'alf':
                p = copy.deepcopy(plan)
                p['cfg']['names'][k] = 'ks'
                yield p
    if cfg['poison']:
        p = copy.deepcopy(plan)
        p['cfg']['poison'] = []
        yield p
    if cfg['knobs']:
        for k in list(cfg['knobs']):
            p = copy.deepcopy(plan)
            del p['cfg']['knobs'][k]
            yield p
    if cfg.get('curation'):
        p = copy.deepcopy(plan)
        p['cfg']['curation'] = []
        yield p
    for k, v in cfg['present'].items():
        if v and k not in ('raw',):
            p = copy.deepcopy(plan)
            p['cfg']['present'][k] = False
            if k == 'wm':
                p['cfg']['present']['wmi'] = False
            yield p
    for k, simple in (('times', 'int64'), ('ids', 'int32'), ('chmap', 'int32'), ('find', 'int32'),
                      ('tmpl', 'float32')):
        if cfg['dtypes'][k] != simple:
            p = copy.deepcopy(plan)
            p['cfg']['dtypes'][k] = simple
            yield p
    if cfg['unused_templates']:
        p = copy.deepcopy(plan)
        p['cfg']['unused_templates'] = []
        p['cfg']['poison'] = []
        yield p
    if cfg['n_shanks'] > 1:
        p = copy.deepcopy(plan)
        p['cfg']['n_shanks'] = 1
        yield p
    for j, op in enumerate(plan['ops']):
        if op['op'] == 'curate' and len(op['ops']) > 1:
            for i in range(len(op['ops'])):
                p = copy.deepcopy(plan)
                del p['ops'][j]['ops'][i]
                yield p
        if op['op'] == 'save_metadata' and len(op['values']) > 1:
            for k in list(op['values']):
                p = copy.deepcopy(plan)
                del p['ops'][j]['values'][k]
                yield p
        if op['op'] == 'dirty_reload':
            p = copy.deepcopy(plan)
            p['ops'][j] = {'op': 'reload'}
            yield p
        if op['op'] == 'foreign' and len(op['rows']) > 1:
            p = copy.deepcopy(plan)
            p['ops'][j]['rows'] = op['rows'][:1]
            yield p


# --------------------------------------------------------------------------------------------------
# The world executor
# --------------------------------------------------------------------------------------------------

class _SimulatedReadError(IOError):
    pass


class _FailingTraces(object):
    """The model's raw data reader, failing with an I/O error after `budget` reads."""

    def __init__(self, real, budget):
        self._real = real
        self._budget = budget

    def __getattr__(self, name):
        return getattr(self._real, name)

    def __getitem__(self, item):
        if self._budget <= 0:
            raise _SimulatedReadError('simulated read error on the raw data')
        self._budget -= 1
        return self._real[item]


def _map_is_backed(a):
    """False when `a` is a memory map whose file is now SHORTER than the map (the file was
    rewritten under a session that kept its old map): touching such a map kills the interpreter
    with a bus error instead of giving a verdict."""
    base = a
    while base is not None and not isinstance(base, np.memmap):
        base = getattr(base, 'base', None)
    if base is None or getattr(base, 'filename', None) is None:
        return True
    try:
        need = int(base.offset) + int(base.nbytes)
        return os.path.getsize(str(base.filename)) >= need
    except OSError:
        return False


def _win_close(got, exp, eps):
    """Window comparison: finite values within a few ulps of the recording's float type,
    non-finite samples (saturated or corrupt samples of a float recording) reproduced as they
    are."""
    got = np.asarray(got, dtype=np.float64)
    exp = np.asarray(exp, dtype=np.float64)
    if got.shape != exp.shape:
        return False
    fin = np.isfinite(exp)
    if not np.array_equal(fin, np.isfinite(got)):
        return False
    if not np.array_equal(np.isnan(exp), np.isnan(got)):
        return False
    if not np.array_equal(exp[~fin & ~np.isnan(exp)], got[~fin & ~np.isnan(got)]):
        return False
    e, g_ = exp[fin], got[fin]
    return bool(np.all(np.abs(g_ - e) <= 4 * eps * np.maximum(np.abs(e), np.abs(g_))))


def _aeq(a, b):
    a = np.asarray(a)
    b = np.asarray(b)
    return a.shape == b.shape and bool(np.array_equal(a, b))


def _desc(a):
    if a is None:
        return None
    a = np.asarray(a)
    return {'shape': list(a.shape), 'dtype': str(a.dtype), 'head': a.ravel()[:6].tolist()}


class DatasetWorld(object):
    def __init__(self, cfg, ctx, root=None):
        self.cfg = cfg
        self.ctx = ctx
        self.g = world.build_gt(cfg)
        base = (root or ctx.scratch())
        if cfg.get('dir_name'):
            # a dataset folder whose path contains characters that are special in glob patterns,
            # next to a sibling folder such a pattern would match
            self.dir = base / cfg['dir_name'] / 'ks2'
            (base / 'mouse1' / 'ks2').mkdir(parents=True, exist_ok=True)
            ctx.probe('glob_characters_in_dataset_path')
        else:
            self.dir = base / 'dataset'
        self.params = world.write_dataset(cfg, self.g, self.dir)
        if cfg.get('params_symlink'):
            # the parameter file is shared: params.py is a symbolic link to a file kept in
            # another folder (which holds nothing else)
            shared = base / 'shared_params'
            shared.mkdir(exist_ok=True)
            os.replace(str(self.params), str(shared / 'params_ks.py'))
            os.symlink(str(shared / 'params_ks.py'), str(self.params))
            ctx.probe('params_file_is_a_symbolic_link')
        self.model = None
        self.retired = []
        ctx.on_cleanup(self.close_all)
        p = cfg['present']
        # reference: durable state
        self.disk_clusters = self.g.sclusters.copy() if p['sclusters'] else None
        self.clusters_file_created = False
        self.pending_clusters = None
        self.meta = {}        # field -> mapping (last successful save)
        self.torn_fields = set()
        self.foreign_fields = {}     # field -> mapping from valid foreign files
        self.forbidden_fields = set()  # fields of cluster_info files: must not show up
        self.store = 'absent'  # absent / ok / torn
        self.store_factor = None
        self.wm_present = p['wm']
        self.disk_wmi = self.g.wmi_file
        self.similar_present = p['similar']
        self.amps_present = p['amps']
        self.shanks_present = p['shanks']
        self.probes_present = p['probes']
        self.n_loads = 0
        nclose = cfg['knobs'].get('n_closest_channels', 12)
        thr = cfg['knobs'].get('amplitude_threshold', 0)
        self.ref = ref.DatasetRef(cfg, self.g, n_closest=nclose, threshold=thr)
        g = self.g
        self.A = g.raw[:, g.chmap] if g.raw is not None else None

    # ---- plumbing ----
    def close_all(self):
        for m in [self.model] + self.retired:
            if m is not None:
                try:
                    m.close()
                except Exception:
                    pass
        self.model = None
        self.retired = []

    def current_clusters(self):
        return self.disk_clusters if self.disk_clusters is not None else self.g.stemplates

    def abstract_state(self):
        cfg = self.cfg
        sc = self.current_clusters()
        ids = np.unique(sc)
        n_empty = int(sc.max()) + 1 - len(ids)
        return (sum(1 for v in cfg['names'].values() if v == 'alf'),
                tuple(sorted(k for k, v in cfg['present'].items() if v)),
                cfg['sparse'], not _aeq(sc, self.g.stemplates), min(n_empty, 3),
                (cfg['nt'] - 1) in cfg['unused_templates'], self.store, min(len(self.meta), 3),
                self.model is not None, min(len(self.retired), 2))

    # ---- ops ----
    def load(self, kind):
        from phylib.io.model import load_model
        ctx = self.ctx
        if kind == 'reload' and self.model is not None:
            self.model.close()
            self.model = None
        if kind == 'dirty_reload':
            if self.model is not None:
                self.retired.append(self.model)
                ctx.probe('dirty_reload')
                ctx.fault('dirty_reload')
            self.model = None
        if self.model is not None:
            self.model.close()
        before = world.snapshot(self.dir) if ctx.prop == 'C04' else None
        cwd0 = None
        if self.cfg.get('decoy_cwd') and self.A is not None:
            # environment seam: the process's working directory is somewhere else and holds files
            # named like the dataset's raw files (another recording), with other contents
            decoy = self.dir.parent / 'cwd_elsewhere'
            if not decoy.exists():
                decoy.mkdir()
                for f in self.dir.iterdir():
                    if f.is_file() and f.name.startswith('raw'):
                        b = f.read_bytes()
                        (decoy / f.name).write_bytes(bytes((x + 1) % 256 for x in b[:4096])
                                                     + b[4096:][::-1])
            cwd0 = os.getcwd()
            os.chdir(decoy)
            ctx.probe('working_directory_holds_same_named_raw_file')
            ctx.fault('decoy_working_directory')
        try:
            self.model = ctx.real('load', load_model, self.params, owners=LOAD_OWNERS)
        except RealCodeError:
            if self.store == 'torn':
                # narrow relaxation: the statements promise that a torn store never yields a
                # wrong window, not that the directory still loads (phylib currently does load
                # it and falls back to the raw data)
                ctx.skipped['load-refused-with-torn-store'] += 1
                raise Discard('load refused with a torn store')
            raise
        finally:
            if cwd0 is not None:
                os.chdir(cwd0)
        self.n_loads += 1
        ctx.op(kind)
        # durable effects of loading
        created_clusters = self.disk_clusters is None
        if created_clusters:
            self.disk_clusters = self.g.stemplates.copy()
            self.clusters_file_created = True
        created_wmi = self.disk_wmi is None
        if created_wmi:
            wm = self.g.wm if self.wm_present else np.eye(self.cfg['nc'])
            self.disk_wmi = np.linalg.inv(wm)
        self.ref.wm = self.g.wm if self.wm_present else np.eye(self.cfg['nc'])
        self.ref.wmi = self.disk_wmi
        if before is not None:
            after = world.snapshot(self.dir)
            created, deleted, modified = world.diff_snapshots(before, after)
            ctx.ev('load-effects', created, deleted, modified)
            allowed = set()
            if created_clusters:
                allowed.add('spike_clusters.npy')
                ctx.probe('no_clusters_file')
            if created_wmi:
                allowed.add('whitening_mat_inv.npy')
                ctx.probe('wmi_created')
            ctx.check(not modified, 'load-modified-preexisting-file', lambda: {'modified': modified})
            ctx.check(not deleted, 'load-deleted-file', lambda: {'deleted': deleted})
            ctx.check(set(created) <= allowed, 'load-created-unexpected-file',
                      lambda: {'created': created, 'allowed': sorted(allowed)})
            ctx.check(set(created) == allowed, 'load-did-not-create-missing-default-file',
                      lambda: {'created': created, 'expected': sorted(allowed)})
        return self.model

    def close(self):
        if self.model is not None:
            self.ctx.real('close', self.model.close, owners=('C10', 'C04', 'C08'))
            self.model = None
            self.ctx.op('close')

    # ---------------------------------------------------------------------------------- C04
    def check_attributes(self):
        ctx, m, g, cfg = self.ctx, self.model, self.g, self.cfg
        p = cfg['present']
        ns, nt, nc = cfg['ns'], cfg['nt'], cfg['nc']

        def eq(name, got, exp, exact=True):
            ok = got is not None and (_aeq(got, exp) if exact else ref.close(got, exp, 1e-12))
            ctx.check(ok, 'attr-' + name, lambda: {'got': _desc(got), 'expected': _desc(exp)})
        dual = set(cfg.get('dual') or [])   # both names present: which wins is not asserted
        if getattr(g, 'alf_times', None) is not None:
            # single-precision seconds: "recovered by rounding" determines the sample only up to
            # the precision the product can be formed in (half a sample plus half a float32 ulp)
            ctx.probe('alf_times_single_precision')
            t64 = g.alf_times.astype(np.float64)
            exact = t64 * g.sr
            # (half a sample for the rounding, half a float32 ulp for the product, and the error
            # of the sampling rate itself once it is taken in single precision)
            sr_err = abs(float(np.float32(g.sr)) - float(g.sr))
            bound = 0.5 + 0.5 * np.spacing(np.abs(exact).astype(np.float32)).astype(np.float64) \
                + np.abs(t64) * sr_err
            got = np.asarray(m.spike_samples)
            ok = got.shape == exact.shape and got.dtype.kind in 'iu' and bool(
                np.all(np.abs(got.astype(np.float64) - exact) <= bound * (1 + 1e-12)))
            ctx.check(ok, 'attr-spike_samples',
                      lambda: {'got': _desc(got), 'expected_about': _desc(exact),
                               'stored_seconds_dtype': 'float32'})
            eq('spike_times', m.spike_times, t64, exact=False)
            # the reference adopts the admissible outcome for the rest of the run
            g.samples = got.astype(np.int64)
        elif getattr(g, 'alf_seconds', None) is not None:
            ctx.probe('alf_seconds_in_another_clock')
            eq('spike_samples', m.spike_samples, g.samples)
            eq('spike_times', m.spike_times, g.alf_seconds, exact=False)
        else:
            eq('spike_samples', m.spike_samples, g.samples)
            eq('spike_times', m.spike_times, g.samples / g.sr, exact=False)
        if 'stemplates' not in dual:
            eq('spike_templates', m.spike_templates, g.stemplates)
            eq('spike_clusters', m.spike_clusters, self.current_clusters())
        if 'amps' in dual:
            pass
        elif self.amps_present:
            eq('amplitudes', m.amplitudes, ref.scrub(g.amps))
        else:
            ctx.check(m.amplitudes is None, 'attr-amplitudes-default')
        if 'chmap' not in dual:
            eq('channel_mapping', m.channel_mapping, g.chmap)
        if 'chpos' not in dual:
            eq('channel_positions', m.channel_positions, g.pos)
        if cfg.get('unreadable_attrs'):
            ctx.probe('unreadable_attribute_file')
            ctx.fault('unreadable_attribute_file')
        eq('channel_shanks', m.channel_shanks, g.shanks if self.shanks_present else np.zeros(nc))
        eq('channel_probes', m.channel_probes, g.probes if self.probes_present else np.zeros(nc))
        ctx.check(m.n_spikes == ns and m.n_channels == nc and m.n_templates == nt
                  and m.n_samples_waveforms == cfg['nsw'], 'attr-counts',
                  lambda: {'got': [m.n_spikes, m.n_channels, m.n_templates,
                                   m.n_samples_waveforms]})
        # templates (all-NaN templates are exempt: the statement is silent on mapped arrays)
        data = np.asarray(m.sparse_templates.data)
        partial = sorted(set(t for t, _ in getattr(g, 'nan_columns', [])))
        keep = [t for t in range(nt) if t not in g.nan_templates and t not in partial]
        ctx.check(data.shape == g.tmpl_data.shape and _aeq(data[keep], g.tmpl_data[keep]),
                  'attr-templates', lambda: {'got': _desc(data), 'expected': _desc(g.tmpl_data)})
        for t in partial:
            # a template with one all-NaN (or infinite) channel: its other channels equal the file;
            # the non-finite entries of a mapped array may stay or be replaced by zero
            ctx.probe('template_with_nan_channel')
            want = np.asarray(g.tmpl_data[t])
            have = np.asarray(data[t]) if data.shape == g.tmpl_data.shape else None
            nanm = ~np.isfinite(want)
            ok = have is not None and np.array_equal(have[~nanm], want[~nanm]) and bool(
                np.all((have[nanm] == 0) | (have[nanm] == want[nanm])
                       | (np.isnan(have[nanm]) & np.isnan(want[nanm]))))
            ctx.check(ok, 'attr-templates', lambda: {'template': t, 'why': 'a template with one '
                                                     'NaN channel lost its other channels'})
        if g.nan_templates:
            ctx.probe('nan_template')
        if cfg['sparse']:
            ctx.probe('sparse_templates')
            eq('template-cols', m.sparse_templates.cols, g.tmpl_cols)
        else:
            ctx.check(m.sparse_templates.cols is None, 'attr-template-cols-dense')
        eq('wm', m.wm, self.ref.wm)
        # the default inverse is computed by the loader in the precision of the stored matrix
        wtol = 1e-4 if getattr(g, 'wm_dtype', 'float64') == 'float32' else 1e-9
        ctx.check(m.wmi is not None and ref.close(m.wmi, self.ref.wmi, wtol), 'attr-wmi',
                  lambda: {'got': _desc(m.wmi), 'expected': _desc(self.ref.wmi)})
        if self.similar_present:
            sim = g.similar.astype('float32') if cfg['seed'] % 2 else g.similar
            eq('similar_templates', m.similar_templates, ref.scrub(sim), exact=False)
        else:
            eq('similar_templates', m.similar_templates, np.zeros((nt, nt)))
        ctx.check(set(m.spike_attributes.keys()) == set(g.attrs), 'attr-spike-attribute-names',
                  lambda: {'got': sorted(m.spike_attributes.keys()), 'expected': sorted(g.attrs)})
        for k, v in g.attrs.items():
            eq('spike-attribute-' + k, m.spike_attributes[k], ref.scrub(v))
        if g.reordered is not None:
            eq('spike_times_reordered', m.spike_times_reordered, g.reordered / g.sr, exact=False)
        if g.raw is not None:
            ctx.check(m.traces is not None, 'attr-traces-missing')
            ctx.check(abs(m.duration - g.raw.shape[0] / g.sr) < 1e-9, 'attr-duration',
                      lambda: {'got': m.duration})
            if cfg['raw']['extra_channels']:
                ctx.probe('raw_extra_channels')
        else:
            ctx.check(m.traces is None, 'attr-traces-default')
            if cfg.get('raw_missing'):
                ctx.probe('params_name_a_missing_raw_file')
                ctx.fault('raw_file_absent')
        if any(v == 'alf' for v in cfg['names'].values()):
            ctx.probe('alf_names')
            if cfg.get('alf_label'):
                ctx.probe('alf_label_in_names')
        if cfg.get('raw') and cfg['raw'].get('format', 'flat') != 'flat':
            ctx.probe('raw_' + cfg['raw']['format'])
        if cfg.get('raw') and cfg['raw'].get('nonfinite'):
            ctx.probe('nonfinite_raw_samples')
        if cfg['names']['times'] == 'alf' and not p.get('samples_file'):
            ctx.probe('alf_times_without_samples')
        if cfg['colvec']:
            ctx.probe('colvec')
        if cfg['poison']:
            ctx.probe('poisoned')
            ctx.fault('poison_values')
            if any(po['kind'] == 'mixed' and len(po.get('pos', [])) >= 2 for po in cfg['poison']):
                ctx.probe('inf_of_both_signs_in_one_file')

    def q_traces(self, seed):
        ctx, m = self.ctx, self.model
        if self.A is None or m.traces is None:
            return
        rs = np.random.RandomState(seed)
        A = self.A
        if 'chmap' in (self.cfg.get('dual') or []):
            # two channel-map files: the permutation is by whichever one the loader chose
            A = self.g.raw[:, np.asarray(m.channel_mapping).astype(np.int64)]
        n = A.shape[0]
        a = int(rs.randint(0, n))
        b = int(rs.randint(a + 1, n + 1))
        kind = rs.randint(0, 3)
        if kind == 2 and self.cfg['raw'].get('format') == 'cbin':
            kind = 0   # the compressed decoder does not offer index lists (C01's stated exception)
        if kind == 0:
            item, exp = slice(a, b), A[a:b]
        elif kind == 1:
            item, exp = a, A[a:a + 1]
        else:
            idx = np.unique(rs.randint(0, n, size=5))
            item, exp = idx, A[idx]
        cols = None
        if rs.rand() < 0.35:
            # a read with a channel selector; later plain reads must not be affected by it
            nch = A.shape[1]
            cols = [int(c) for c in rs.permutation(nch)[:rs.randint(1, nch + 1)]]
            exp = exp[:, cols]
            ctx.probe('traces_read_with_channel_selector')
        if cols is None:
            got = ctx.real('traces[]', lambda: m.traces[item], owners=('C04',))
        else:
            got = ctx.real('traces[]', lambda: m.traces[item, cols], owners=('C04',))
        ctx.probe('traces_read')
        ctx.check(_aeq(got, exp) and got.dtype == exp.dtype, 'attr-traces-rows',
                  lambda: {'item': str(item), 'cols': cols, 'got': _desc(got),
                           'expected': _desc(exp)})

    def load_again(self):
        """A second load of the same directory creates nothing and changes nothing."""
        from phylib.io.model import load_model
        ctx = self.ctx
        before = world.snapshot(self.dir)
        m2 = ctx.real('load', load_model, self.params, owners=LOAD_OWNERS)
        after = world.snapshot(self.dir)
        created, deleted, modified = world.diff_snapshots(before, after)
        ctx.probe('second_load')
        ctx.op('load_again', changes_state=False)
        ctx.check(not created and not deleted and not modified, 'second-load-has-side-effects',
                  lambda: {'created': created, 'deleted': deleted, 'modified': modified})
        m2.close()

    def load_other_listing(self, strategy):
        """Metamorphic check owned by the listing seam: what is loaded is a function of the
        directory contents, not of the order in which the file system enumerates them."""
        from phylib.io.model import load_model
        ctx, m, cfg = self.ctx, self.model, self.cfg
        with seams.installed(listing=strategy, seed=cfg['seed'] + 1):
            m2 = ctx.real('load', load_model, self.params, owners=LOAD_OWNERS)
        ctx.op('load_other_listing', changes_state=False)
        ctx.probe('loaded_under_second_listing_order')
        if cfg.get('dual'):
            ctx.probe('both_names_of_a_family_present')
        try:
            for name in ('spike_samples', 'spike_templates', 'spike_clusters', 'amplitudes',
                         'channel_mapping', 'channel_positions', 'channel_shanks',
                         'channel_probes', 'wm', 'similar_templates'):
                a, b = getattr(m, name), getattr(m2, name)
                same = (a is None and b is None) or (a is not None and b is not None
                                                     and _aeq(a, b))
                ctx.check(same, 'load-depends-on-listing-order',
                          lambda: {'attribute': name, 'first': _desc(a), 'second': _desc(b),
                                   'listings': [cfg.get('listing'), strategy]})
            ctx.check(sorted(m.spike_attributes.keys()) == sorted(m2.spike_attributes.keys())
                      and all(_aeq(m.spike_attributes[k], m2.spike_attributes[k])
                              for k in m.spike_attributes),
                      'load-depends-on-listing-order',
                      lambda: {'attribute': 'spike_attributes',
                               'first': sorted(m.spike_attributes.keys()),
                               'second': sorted(m2.spike_attributes.keys())})
            ta, tb = np.asarray(m.sparse_templates.data), np.asarray(m2.sparse_templates.data)
            ctx.check(ta.shape == tb.shape and bool(np.array_equal(ta, tb, equal_nan=True)),
                      'load-depends-on-listing-order', lambda: {'attribute': 'templates'})
        finally:
            m2.close()

    def remove_optional(self, what):
        """Fault: an optional file disappears between two loads."""
        cfg = self.cfg
        names = {'similar': 'similar_templates.npy', 'wmi': 'whitening_mat_inv.npy',
                 'wm': 'whitening_mat.npy', 'amps': world._name(cfg, 'amps'),
                 'shanks': world._name(cfg, 'chshank'), 'probes': world._name(cfg, 'chprobe'),
                 'sclusters_created': 'spike_clusters.npy'}
        if what == 'sclusters_created' and not self.clusters_file_created:
            return
        path = self.dir / names[what]
        if not path.exists():
            return
        path.unlink()
        self.ctx.fault('remove_optional:' + what)
        self.ctx.op('remove_optional')
        if what == 'similar':
            self.similar_present = False
        elif what == 'wmi':
            self.disk_wmi = None
        elif what == 'wm':
            self.wm_present = False
        elif what == 'amps':
            self.amps_present = False
        elif what == 'shanks':
            self.shanks_present = False
            self.ref.shanks = np.zeros(cfg['nc'], dtype=np.int64)
        elif what == 'probes':
            self.probes_present = False
            self.ref.probes = np.zeros(cfg['nc'], dtype=np.int64)
        elif what == 'sclusters_created':
            self.disk_clusters = None

    def swap_times(self, i):
        """Make the stored spike times non-monotonic; the next load must be rejected."""
        cfg = self.cfg
        path = self.dir / world._name(cfg, 'times')
        arr = np.load(path)
        lab = ('.' + cfg['alf_label']) if cfg.get('alf_label') else ''
        flat = arr.reshape(-1)
        if len(flat) < 2:
            return False
        i = i % (len(flat) - 1)
        j = i + 1
        while j < len(flat) and flat[j] == flat[i]:
            j += 1
        if j >= len(flat):
            i, j = 0, len(flat) - 1
            if flat[i] == flat[j]:
                return False
        flat[i], flat[j] = flat[j], flat[i]
        np.save(path, arr)
        if cfg['names']['times'] == 'alf' and cfg['present'].get('samples_file'):
            s = np.load(self.dir / ('spikes.samples%s.npy' % lab))
            s[i], s[j] = s[j], s[i]
            np.save(self.dir / ('spikes.samples%s.npy' % lab), s)
        self.ctx.fault('swap_two_times')
        self.ctx.probe('nonmonotonic')
        return True

    # ---------------------------------------------------------------------------------- C05
    def q_template(self, op):
        ctx, m, cfg, R = self.ctx, self.model, self.cfg, self.ref
        t = op['t']
        if t in self.g.nan_templates:
            # an all-NaN template is zeroed by the loader: amplitudes tie everywhere, so only the
            # existence and self-consistency of the record are asserted
            if cfg['sparse']:
                return
            kw0 = {} if op['thr'] is None else {'amplitude_threshold': op['thr']}
            b = ctx.real('get_template', m.get_template, t, unwhiten=op['unwhiten'],
                         owners=('C05',), **kw0)
            ctx.op('q_template', changes_state=False)
            ctx.probe('all_zero_template')
            ch = [int(x) for x in b.channel_ids]
            W = np.asarray(b.template)
            ctx.check(len(ch) >= 1 and len(set(ch)) == len(ch) and W.shape == (cfg['nsw'], len(ch))
                      and not np.any(W) and np.asarray(b.amplitude).shape == (len(ch),)
                      and not np.any(np.asarray(b.amplitude)), 'all-zero-template-record',
                      lambda: {'t': t, 'channels': ch, 'shape': list(W.shape)})
            return
        if any(t == t_ for t_, _ in getattr(self.g, 'nan_columns', [])):
            op = dict(op, unwhiten=False, chans=None)
            ctx.probe('template_with_nan_channel')
        chans = None if op['chans'] is None else np.array(op['chans'], dtype=np.int64)
        kw = {}
        if op['thr'] is not None:
            kw['amplitude_threshold'] = op['thr']
        b = ctx.real('get_template', m.get_template, t, channel_ids=chans,
                     unwhiten=op['unwhiten'], owners=('C05',), **kw)
        ctx.op('q_template', changes_state=False)
        if self.n_loads >= 2:
            ctx.probe('queried_after_reload')
            if op['unwhiten'] and self.g.wm is not None and self.g.wmi_file is None:
                ctx.probe('wmi_file_left_by_earlier_load')
        ch = [int(x) for x in b.channel_ids]
        W = np.asarray(b.template)
        ctx.ev('q_template', t, ch, np.asarray(b.amplitude))
        ctx.check(W.ndim == 2 and W.shape[1] == len(ch) and W.shape[0] == cfg['nsw'],
                  'template-shape', lambda: {'shape': list(W.shape), 'n_channels': len(ch)})
        if cfg['sparse']:
            ctx.probe('sparse')
            rch, rW = R.sparse_template(t, op['unwhiten'])
            if (self.g.tmpl_cols[t] == -1).any():
                ctx.probe('minus_one_column')
            if len(rch) < int((self.g.tmpl_cols[t] != -1).sum()):
                ctx.probe('signal_free_column')
            ctx.check(len(set(ch)) == len(ch), 'template-channels-not-distinct', lambda: {'ch': ch})
            # "signal-free" has no quantitative definition: a stored column whose amplitude is
            # below 1e-5 of the largest stored column may or may not be listed
            dat_ = np.abs(np.asarray(self.g.tmpl_data[t], dtype=np.float64)).max(axis=0)
            faint = set(int(c) for c, a_ in zip(self.g.tmpl_cols[t], dat_)
                        if c != -1 and 0 < a_ <= 1e-5 * max(float(dat_.max()), 1e-300))
            ctx.check(set(rch) - faint <= set(ch) <= set(rch), 'sparse-template-channel-set',
                      lambda: {'got': ch, 'expected': rch, 'optional': sorted(faint)})
            rch_full = rch
            scale = max(float(np.abs(rW).max()), 1e-300) if rW.size else 1.0
            for j, c in enumerate(ch):
                col = rW[:, rch.index(c)]
                ctx.check(np.all(np.abs(W[:, j] - col) <= 1e-5 * scale), 'template-column-mismatch',
                          lambda: {'t': t, 'j': j, 'channel': c})
            ramp = {c: float(ref.ptp(rW[:, rch.index(c)])) for c in rch}
            self._check_order_and_amps(b, ch, W, ramp, scale, t)
            return
        ctx.probe('dense')
        full = R.template_full(t, op['unwhiten'])
        scale = max(float(np.nanmax(np.abs(full))) if np.isfinite(full).any() else 0.0, 1e-300)
        if chans is not None:
            ctx.probe('explicit_channels')
            ctx.check(ch == [int(x) for x in chans], 'explicit-channel-list-not-echoed',
                      lambda: {'got': ch, 'expected': op['chans']})
            for j, c in enumerate(ch):
                ctx.check(np.all(np.abs(W[:, j] - full[:, c]) <= 1e-5 * scale),
                          'template-column-mismatch', lambda: {'t': t, 'j': j, 'channel': c})
            return
        sets = R.dense_channel_sets(t, op['unwhiten'], op['thr'])
        if sets is None:
            ctx.skipped['ambiguous-peak'] += 1
            return
        sure, opt, amp, peak = sets
        ctx.check(len(set(ch)) == len(ch), 'template-channels-not-distinct', lambda: {'ch': ch})
        ctx.check(sure <= set(ch) <= (sure | opt), 'dense-template-channel-set',
                  lambda: {'t': t, 'got': sorted(ch), 'required': sorted(sure),
                           'optional': sorted(opt), 'peak': peak})
        if len(sure | opt) < cfg['nc']:
            near_s, near_o = R.nearest(peak)
            if len(near_s | near_o) < cfg['nc']:
                ctx.probe('neighbourhood_bites')
        if cfg['n_shanks'] > 1 and cfg['present']['shanks']:
            ctx.probe('multi_shank')
        thr = R.threshold if op['thr'] is None else op['thr']
        if thr and any(amp[c] < thr * amp[peak] for c in range(cfg['nc'])):
            ctx.probe('threshold_bites')
        for j, c in enumerate(ch):
            ctx.check(np.all(np.abs(W[:, j] - full[:, c]) <= 1e-5 * scale),
                      'template-column-mismatch', lambda: {'t': t, 'j': j, 'channel': c})
        ramp = {c: float(amp[c]) for c in range(cfg['nc'])}
        ctx.check(int(b.best_channel) == peak, 'template-best-channel',
                  lambda: {'got': int(b.best_channel), 'expected': peak})
        self._check_order_and_amps(b, ch, W, ramp, scale, t)

    def _check_order_and_amps(self, b, ch, W, ramp, scale, t):
        ctx = self.ctx
        a = np.asarray(b.amplitude, dtype=np.float64)
        ctx.check(a.shape == (len(ch),), 'template-amplitude-shape',
                  lambda: {'shape': list(a.shape), 'n_channels': len(ch)})
        tol = 2e-5 * scale
        for j, c in enumerate(ch):
            ctx.check(abs(a[j] - ramp[c]) <= tol, 'template-amplitude-not-aligned-with-channels',
                      lambda: {'t': t, 'j': j, 'channel': c, 'got': float(a[j]),
                               'expected': ramp[c], 'channels': ch})
        ctx.check(all(ramp[ch[j]] >= ramp[ch[j + 1]] - tol for j in range(len(ch) - 1)),
                  'template-channels-not-by-decreasing-amplitude',
                  lambda: {'t': t, 'channels': ch, 'amps': [ramp[c] for c in ch]})
        if ch:
            ctx.check(ramp[ch[0]] >= max(ramp[c] for c in ch) - tol
                      and ramp[ch[0]] >= max(ramp.values()) - tol, 'template-peak-channel-not-first',
                      lambda: {'t': t, 'channels': ch})
            if hasattr(b, 'best_channel'):
                ctx.check(int(b.best_channel) == ch[0] or
                          abs(ramp[int(b.best_channel)] - ramp[ch[0]]) <= tol,
                          'template-best-channel-not-first',
                          lambda: {'best': int(b.best_channel), 'first': ch[0]})

    def q_cluster_channels(self, c):
        ctx, m = self.ctx, self.model
        sc = self.current_clusters()
        spikes = np.nonzero(sc == c)[0]
        if len(spikes) == 0:
            return
        st = self.g.stemplates[spikes]
        tids, counts = np.unique(st, return_counts=True)
        best = [int(t) for t in tids[counts == counts.max()]]
        if any(int(t) == t_ for t in tids for t_, _ in getattr(self.g, 'nan_columns', [])):
            return      # (unwhitened by default: a NaN channel spreads to every channel)
        got = ctx.real('get_cluster_channels', m.get_cluster_channels, c, owners=('C05',))
        cands = [[int(x) for x in m.get_template(t).channel_ids] for t in best]
        ctx.op('q_cluster_channels', changes_state=False)
        ctx.check([int(x) for x in got] in cands, 'cluster-channels-not-of-dominant-template',
                  lambda: {'got': [int(x) for x in got], 'candidates': cands})
        tc = ctx.real('get_template_channels', m.get_template_channels, best[0], owners=('C05',))
        tw = ctx.real('get_template_waveforms', m.get_template_waveforms, best[0], owners=('C05',))
        bt = m.get_template(best[0])
        ctx.check(_aeq(tc, bt.channel_ids) and _aeq(tw, bt.template),
                  'template-channel-or-waveform-accessor-differs')

    # ---------------------------------------------------------------------------------- C06
    def q_features(self, op):
        ctx, m, g, cfg = self.ctx, self.model, self.g, self.cfg
        if g.pc_features is None:
            return
        spikes = np.array(op['spikes'], dtype=np.int64)
        chans = np.array(op['chans'], dtype=np.int64)
        got = ctx.real('get_features', m.get_features, spikes, chans, owners=('C06',))
        ctx.op('q_features', changes_state=False)
        exp, mask = self.ref.features(op['spikes'], op['chans'])
        ctx.ev('q_features', np.asarray(got))
        ctx.check(got is not None and got.shape == exp.shape, 'features-shape',
                  lambda: {'got': _desc(got), 'expected': list(exp.shape)})
        if g.feat_rows is not None:
            ctx.probe('row_table')
        if any(c >= cfg['nc'] for c in op['chans']):
            ctx.probe('unknown_channel')
        if any(c >= 1000 for c in op['chans']):
            ctx.probe('very_large_unknown_channel_id')
        if len(spikes) == 0:
            ctx.probe('empty_spike_list')
        if list(op['spikes']) != sorted(op['spikes']):
            ctx.probe('unsorted_spikes')
        ctx.check(_aeq(np.asarray(got)[mask], exp[mask]), 'features-values',
                  lambda: {'spikes': op['spikes'], 'chans': op['chans'],
                           'first_bad': int(np.argmax(np.any(
                               np.asarray(got)[mask] != exp[mask], axis=(1, 2))))})

    def q_tfeatures(self, op):
        ctx, m, g = self.ctx, self.model, self.g
        if g.tfeatures is None:
            return
        rs = np.random.RandomState(op['seed'])
        pool = g.tf_rows if g.tf_rows is not None else np.arange(self.cfg['ns'])
        k = min(op['k'], len(pool))
        spikes = np.sort(rs.permutation(pool)[:k]).astype(np.int64)
        got = ctx.real('get_template_features', m.get_template_features, spikes, owners=('C06',))
        ctx.op('q_tfeatures', changes_state=False)
        exp = self.ref.template_features(spikes)
        if g.tf_rows is not None:
            ctx.probe('tf_row_table')
        ctx.check(got is not None and np.shape(got) == np.shape(exp)
                  and bool(np.array_equal(np.asarray(got, dtype=np.float64),
                                          np.asarray(exp, dtype=np.float64), equal_nan=True)),
                  'template-features-values',
                  lambda: {'spikes': spikes.tolist(), 'got': _desc(got), 'expected': _desc(exp)})

    def q_from_sparse(self, op):
        from phylib.io.model import from_sparse
        ctx = self.ctx
        rs = np.random.RandomState(op['seed'])
        n, nloc, nch = rs.randint(0, 6), rs.randint(1, 5), rs.randint(1, 8)
        extra = tuple(rs.randint(1, 4, size=rs.randint(0, 3)))
        data = rs.normal(size=(n, nloc) + extra)
        cols = np.stack([rs.permutation(max(nch + 2, nloc))[:nloc] for _ in range(n)]) if n else \
            np.zeros((0, nloc), dtype=np.int64)
        cols = cols.astype(rs.choice(['int64', 'int32', 'uint32']))
        if cols.dtype.kind == 'i' and n and rs.rand() < 0.35:
            # unused (-1) entries anywhere in the rows, not only as trailing padding; sometimes in
            # every row
            every = rs.rand() < 0.5
            for i in range(n):
                if every or rs.rand() < 0.5:
                    k = rs.randint(1, nloc + 1)
                    cols[i, rs.permutation(nloc)[:k]] = -1
            ctx.probe('minus_one_inside_column_rows')
        req = rs.permutation(nch + 4)[:rs.randint(1, nch + 1)]
        def expected(req_):
            exp_ = np.zeros((n, len(req_)) + extra)
            for i in range(n):
                for j in range(nloc):
                    for b, c in enumerate(req_):
                        if int(cols0[i, j]) == int(c):
                            exp_[i, b] = data0[i, j]
            return exp_
        data0, cols0 = data.copy(), cols.copy()
        # the SAME data / column-table objects are densified twice: first for a subset of the
        # channels, then for the full request (a caller keeps its table between requests)
        first = req[:max(1, len(req) // 2)]
        got1 = ctx.real('from_sparse', from_sparse, data, cols, first, owners=('C06',))
        got = ctx.real('from_sparse', from_sparse, data, cols, req, owners=('C06',))
        ctx.op('q_from_sparse', changes_state=False)
        ctx.probe('same_table_densified_twice')
        ctx.check(_aeq(got1, expected(first)), 'from-sparse-values',
                  lambda: {'request': 'first', 'got': _desc(got1)})
        exp = expected(req)
        ctx.check(_aeq(got, exp), 'from-sparse-values',
                  lambda: {'request': 'second (same table object)', 'got': _desc(got),
                           'expected': _desc(exp), 'cols_dtype': str(cols.dtype)})

    def q_features_wf(self, op):
        """Waveform route: no feature file, but extracted spike waveforms exist."""
        ctx, m, g = self.ctx, self.model, self.g
        if m.spike_waveforms is None or g.pc_features is not None:
            return
        t = op['t']
        sw = m.spike_waveforms
        if np.asarray(sw.spike_ids).ndim == 0:
            return
        # the store as it is ON DISK (what the session keeps in memory after an export is part of
        # the code under test)
        try:
            disk_ids = np.load(self.dir / '_phy_spikes_subset.spikes.npy')
            disk_chans = np.load(self.dir / '_phy_spikes_subset.channels.npy')
        except Exception:
            return
        if disk_ids.ndim != 1 or disk_chans.ndim != 2 or len(disk_ids) != len(disk_chans):
            return
        ctx.check(_aeq(np.asarray(sw.spike_ids), disk_ids)
                  and _aeq(np.asarray(sw.spike_channels), disk_chans),
                  'store-in-memory-differs-from-store-on-disk',
                  lambda: {'ids': _desc(sw.spike_ids), 'channels': _desc(sw.spike_channels),
                           'on_disk': [list(disk_ids.shape), list(disk_chans.shape)]})
        sw = type('Store', (), {'spike_ids': disk_ids, 'spike_channels': disk_chans})()
        stored = [int(s) for s in np.asarray(sw.spike_ids) if g.stemplates[int(s)] == t]
        if len(stored) < 2:
            return
        if (op['t'] + 2 * op['k']) % 3 == 0:
            stored = stored[:2]      # exactly two waveforms: only the first component is defined
            ctx.probe('waveform_route_two_spikes')
        row = np.asarray(sw.spike_channels)[list(np.asarray(sw.spike_ids)).index(stored[0])]
        chans = [int(c) for c in row if c != -1][:op['k']]
        if not chans:
            return
        ids_all = [int(s) for s in np.asarray(sw.spike_ids)]
        chan_rows = np.asarray(sw.spike_channels)
        if (op['t'] + op['k']) % 4 == 1:
            # ... plus stored spikes of OTHER templates, which may store none of the requested
            # channels (the store serves zeros on channels a spike does not hold)
            others = [s for s in ids_all if g.stemplates[s] != t]
            add = others[::max(1, len(others) // 2)][:2]
            if add:
                stored = sorted(stored + add)
                ctx.probe('waveform_route_spike_storing_other_channels')
        spikes = np.array(stored, dtype=np.int64)
        all_stored = set(ids_all)
        absent = [s for s in range(self.cfg['ns']) if s not in all_stored]
        if absent and (op['t'] + op['k'] + len(stored)) % 2:
            # the request also names spikes the store does not hold (values claimed for stored
            # spikes only: their features must not depend on who else is asked for)
            extra = absent[::max(1, len(absent) // 3)][:3]
            spikes = np.array(sorted(stored + extra), dtype=np.int64)
            ctx.probe('waveform_route_request_with_absent_spikes')
        unsorted = len(spikes) == len(stored) and len(stored) >= 3 and (op['t'] + op['k']) % 3 == 2
        if unsorted:
            # every requested spike is in the store and the request is NOT in increasing order
            spikes = spikes[::-1].copy() if op['k'] % 2 else np.roll(spikes, 1)
            ctx.probe('waveform_route_unsorted_request')
        got = ctx.real('get_features', m.get_features, spikes, np.array(chans), owners=('C06',))
        ctx.op('q_features_wf', changes_state=False)
        ctx.probe('waveform_route')
        ctx.check(got is not None and got.shape == (len(spikes), len(chans), 3),
                  'waveform-features-shape', lambda: {'got': _desc(got)})
        pos_of = {int(s_): i_ for i_, s_ in enumerate(spikes)}
        got = np.asarray(got)[[pos_of[s_] for s_ in stored]]
        # the waveforms the features must be projections of: windows x factor on those channels
        W = np.stack([window_ref(self.A, g.samples[s], self.cfg['nsw'], chans)
                      for s in stored]).astype(np.float64) * self.store_factor
        for a, s_ in enumerate(stored):
            held = set(int(c) for c in chan_rows[ids_all.index(s_)] if c != -1)
            for b, ch in enumerate(chans):
                if ch not in held:
                    W[a, :, b] = 0
        ctx.check(got is not None and got.shape == (len(stored), len(chans), 3),
                  'waveform-features-shape', lambda: {'got': _desc(got)})
        ok = ref.pca_projection_ok(W, got)
        if ok is None:
            ctx.skipped['pca-gap-too-small'] += 1
            return
        ctx.check(ok, 'waveform-features-not-pca-projections',
                  lambda: {'t': t, 'spikes': stored[:10], 'chans': chans})

    # ---------------------------------------------------------------------------------- C08
    def curate(self, ops):
        ctx, m = self.ctx, self.model
        sc = world.apply_curation(self.current_clusters(), self.g.stemplates, ops)
        ctx.real('save_spike_clusters', m.save_spike_clusters, sc.astype(np.int32),
                 owners=('C08', 'C10'))
        self.disk_clusters = sc
        ctx.op('curate')
        ctx.ev('curate', sc)
        if any(o['k'] == 'undo' for o in ops):
            ctx.probe('undo')

    def check_clusters(self):
        ctx, m, g, cfg, R = self.ctx, self.model, self.g, self.cfg, self.ref
        sc = self.current_clusters()
        nt = cfg['nt']
        T = np.asarray(g.tmpl_data, dtype=np.float64)
        if (nt - 1) in cfg['unused_templates']:
            ctx.probe('highest_template_unused')
        if _aeq(sc, g.stemplates):
            ctx.check(m.n_clusters == nt, 'uncurated-n_clusters-differs-from-n_templates',
                      lambda: {'n_clusters': int(m.n_clusters), 'n_templates': nt})
            ctx.check(_aeq(np.asarray(m.sparse_clusters.data), np.asarray(m.sparse_templates.data)),
                      'uncurated-cluster-waveforms-differ-from-templates')
            return
        mm = R.merge_map(sc)
        nmax = int(sc.max()) + 1
        ctx.check(sorted(m.merge_map.keys()) == list(range(nmax)), 'merge-map-keys',
                  lambda: {'got': sorted(int(k) for k in m.merge_map.keys())[:20], 'max': nmax})
        for c in range(nmax):
            got = [int(x) for x in m.merge_map[c]]
            ctx.check(sorted(got) == mm[c] and len(set(got)) == len(got), 'merge-map-templates',
                      lambda: {'cluster': c, 'got': got, 'expected': mm[c]})
        empty = [c for c in range(nmax) if not mm[c]]
        ctx.check(sorted(int(x) for x in np.asarray(m.nan_idx).ravel()) == empty, 'empty-ids',
                  lambda: {'got': np.asarray(m.nan_idx).tolist(), 'expected': empty})
        if empty:
            ctx.probe('empty_id')
        ctx.check(int(m.n_clusters) == nmax, 'n_clusters', lambda: {'got': int(m.n_clusters)})
        nonempty = [c for c in range(nmax) if mm[c]]
        if len(nonempty) >= 2:
            # history: curation goes on in memory (one more merge that empties an id below the
            # maximum) and the map is asked for again without a reload
            a_, b_ = nonempty[0], nonempty[1]
            sc2 = np.array(sc).copy()
            sc2[sc2 == a_] = b_
            old = m.spike_clusters
            m.spike_clusters = sc2.astype(np.asarray(old).dtype)
            try:
                r2 = ctx.real('get_merge_map', m.get_merge_map, owners=('C08',))
            finally:
                m.spike_clusters = old
            mm2 = R.merge_map(sc2)
            ctx.probe('in_memory_curation')
            ctx.check(sorted(int(k) for k in r2[0].keys()) == list(range(nmax))
                      and all(sorted(int(x) for x in r2[0][c]) == mm2[c] for c in range(nmax)),
                      'merge-map-after-in-memory-curation',
                      lambda: {'merged': [int(a_), int(b_)]})
            empty2 = [c for c in range(nmax) if not mm2[c]]
            ctx.check(sorted(int(x) for x in np.asarray(r2[1]).ravel()) == empty2,
                      'empty-ids-after-in-memory-curation',
                      lambda: {'got': np.asarray(r2[1]).tolist(), 'expected': empty2})
        data = np.asarray(m.sparse_clusters.data)
        ctx.check(data.shape == (nmax, cfg['nsw'], cfg['nc']), 'cluster-waveforms-shape',
                  lambda: {'got': list(data.shape)})
        for c in range(nmax):
            tids = mm[c]
            if (sc == c).sum() == 1:
                ctx.probe('single_spike_cluster')
            if len(tids) == 0:
                continue
            if len(tids) == 1:
                ctx.check(_aeq(data[c], T[tids[0]]), 'single-template-cluster-waveform-changed',
                          lambda: {'cluster': c, 'template': tids[0]})
                continue
            ctx.probe('multi_template_cluster')
            counts = {t: int(((sc == c) & (g.stemplates == t)).sum()) for t in tids}
            top = max(counts.values())
            dom = [t for t in tids if counts[t] == top]
            if len(dom) > 1:
                ctx.probe('tie_in_spike_counts')
            # channel lists (whitened space, default threshold) of every template involved
            lists = {}
            amb = False
            for t in tids:
                s = R.dense_channel_sets(t, unwhiten=False)
                if s is None or s[1]:
                    amb = True
                    break
                lists[t] = s[0]
            if amb:
                ctx.skipped['ambiguous-channel-list'] += 1
                continue
            tot = float(sum(counts.values()))
            scale = max(float(np.abs(T[tids]).max()), 1e-300)
            # the weighted mean of the channel-restricted templates on every channel (it does not
            # depend on which template is the dominant one; only the channel list does)
            mean_all = np.zeros((cfg['nsw'], cfg['nc']))
            for t in tids:
                chs = sorted(lists[t])
                mean_all[:, chs] += counts[t] * T[t][:, chs]
            mean_all /= tot
            exps = {}
            for d0 in dom:   # a tie leaves the choice of the dominant template open
                exp = np.zeros((cfg['nsw'], cfg['nc']))
                chs = sorted(lists[d0])
                exp[:, chs] = mean_all[:, chs]
                exps[d0] = exp
            match = [d0 for d0 in dom if np.all(np.abs(data[c] - exps[d0]) <= 1e-6 * scale)]
            ctx.check(bool(match), 'merged-cluster-waveform-not-weighted-mean',
                      lambda: {'cluster': c, 'templates': tids, 'counts': counts,
                               'dominant_candidates': dom,
                               'bad_channels': np.nonzero(np.any(
                                   np.abs(data[c] - exps[dom[0]]) > 1e-6 * scale,
                                   axis=0))[0].tolist()})
            b = ctx.real('get_cluster_mean_waveforms', m.get_cluster_mean_waveforms, c,
                         unwhiten=False, owners=('C08',))
            chl = [int(x) for x in b.channel_ids]
            # (with exactly tied counts AND templates that are flat where their channel lists
            # differ, several candidates produce the same stored array: any of them may be the one
            # the query reports)
            ctx.check(any(set(chl) == lists[d0] and np.all(
                np.abs(np.asarray(b.mean_waveforms) - exps[d0][:, chl]) <= 1e-6 * scale)
                for d0 in match),
                'cluster-mean-waveforms-inconsistent', lambda: {'cluster': c, 'channels': chl})
            # history: an unwhitened query in between must not change what the whitened one returns
            bu = ctx.real('get_cluster_mean_waveforms', m.get_cluster_mean_waveforms, c,
                          owners=('C08',))
            self._check_unwhitened_mean(c, tids, counts, dom, bu)
            b2 = ctx.real('get_cluster_mean_waveforms', m.get_cluster_mean_waveforms, c,
                          unwhiten=False, owners=('C08',))
            ctx.check(_aeq(b2.channel_ids, b.channel_ids)
                      and _aeq(b2.mean_waveforms, b.mean_waveforms),
                      'cluster-mean-waveforms-changed-by-earlier-query', lambda: {'cluster': c})

    def _check_unwhitened_mean(self, c, tids, counts, dom, bu):
        """The same statement read in the unwhitened space: on the channels of the dominant
        template, the spike-count-weighted mean of the templates' channel-restricted (unwhitened)
        waveforms. Decided only when every channel list involved is unambiguous."""
        ctx, g, cfg, R = self.ctx, self.g, self.cfg, self.ref
        if not np.all(np.isfinite(np.asarray(g.tmpl_data)[tids])):
            ctx.skipped['unwhitened-mean-non-finite-template'] += 1
            return
        lists, U = {}, {}
        for t in tids:
            s_ = R.dense_channel_sets(t, unwhiten=True)
            if s_ is None or s_[1]:
                ctx.skipped['ambiguous-channel-list'] += 1
                return
            lists[t] = s_[0]
            U[t] = R.template_full(t, True)
        tot = float(sum(counts.values()))
        scale = max(max(float(np.abs(U[t]).max()) for t in tids), 1e-300)
        chl = [int(x) for x in bu.channel_ids]
        got = np.asarray(bu.mean_waveforms, dtype=np.float64)
        mean_all = np.zeros((cfg['nsw'], cfg['nc']))
        for t in tids:
            chs = sorted(lists[t])
            mean_all[:, chs] += counts[t] * U[t][:, chs]
        mean_all /= tot
        ok = False
        if got.shape == (cfg['nsw'], len(chl)) and any(set(chl) == lists[d0] for d0 in dom):
            ok = bool(np.all(np.abs(got - mean_all[:, chl]) <= 1e-5 * scale))
        ctx.probe('unwhitened_cluster_mean_checked')
        ctx.check(ok, 'unwhitened-cluster-mean-not-weighted-mean',
                  lambda: {'cluster': c, 'templates': tids, 'channels': chl})

    # ---------------------------------------------------------------------------------- C09
    def q_summaries(self, op):
        ctx, m, g, cfg, R = self.ctx, self.model, self.g, self.cfg, self.ref
        factor = op['factor']
        use = op['use']
        sc = self.current_clusters()
        amps = ref.scrub(g.amps)
        if use == 'clusters':
            data = np.asarray(m.sparse_clusters.data)
            ids = sc
            n = int(m.n_clusters)
            if not _aeq(sc, g.stemplates) and data.shape[0] == int(sc.max()) + 1:
                # the per-cluster summaries are defined on the cluster waveforms of C08: do not
                # trust the model's array, recompute it from the ground truth where unambiguous
                cands, amb = ref.reference_cluster_waveforms(
                    R, sc, g.stemplates, np.asarray(g.tmpl_data, dtype=np.float64),
                    cfg['nsw'], cfg['nc'])
                scale_ = max(float(np.abs(np.asarray(g.tmpl_data)).max()), 1e-300)
                for c_ in range(data.shape[0]):
                    if c_ in amb:
                        continue
                    ctx.check(any(np.all(np.abs(data[c_] - e_) <= 1e-6 * scale_)
                                  for e_ in cands[c_]),
                              'cluster-waveform-not-the-weighted-mean-of-its-templates',
                              lambda: {'cluster': c_})
        else:
            data = np.asarray(g.tmpl_data)
            ids = g.stemplates
            n = cfg['nt']
        ctx.op('q_summaries', changes_state=False)
        ctx.check(data.shape[0] == n, 'summaries-id-space',
                  lambda: {'waveforms': int(data.shape[0]), 'n': n})
        counts = np.bincount(ids, minlength=n)
        if counts[-1] == 0:
            ctx.probe('empty_highest_id')
        if not _aeq(sc, g.stemplates):
            ctx.probe('curated')
        sa, tv, ta = ctx.real('get_amplitudes_true', m.get_amplitudes_true, factor, use=use,
                              owners=('C09',))
        e_sa, e_means, au = R.amplitude_chain(data, ids, amps, factor)
        ctx.ev('q_summaries', np.asarray(sa), np.asarray(ta))
        ctx.check(ref.close(sa, e_sa, 1e-5), 'scaled-spike-amplitudes',
                  lambda: {'got': _desc(sa), 'expected': _desc(e_sa)})
        ctx.check(np.asarray(ta).shape == (n,) and ref.close(ta, e_means, 1e-5),
                  'mean-amplitudes-per-id', lambda: {'got': _desc(ta), 'expected': _desc(e_means),
                                                     'counts': counts.tolist()})
        tv = np.asarray(tv, dtype=np.float64)
        ctx.check(tv.shape == data.shape, 'rescaled-templates-shape')
        for k in range(n):
            if counts[k] and au[k] > 0:
                peak = ref.ptp(tv[k], axis=0).max()
                ctx.check(abs(peak - e_means[k]) <= 1e-4 * max(abs(e_means[k]), 1e-300),
                          'rescaled-template-peak-amplitude',
                          lambda: {'id': k, 'peak': float(peak), 'mean': float(e_means[k])})
        # mean amplitudes over present ids
        for name, vec in (('templates_amplitudes', g.stemplates), ('clusters_amplitudes', sc)):
            got = ctx.real(name, lambda: getattr(m, name), owners=('C09',))
            u = np.unique(vec)
            exp = np.array([amps[vec == k].mean() for k in u])
            atol = 1e-5 if np.dtype(cfg['dtypes'].get('amps', 'float64')).itemsize <= 4 else 1e-9
            ctx.check(ref.close(got, exp, atol), name, lambda: {'got': _desc(got),
                                                                'expected': _desc(exp)})
        # peak channels and durations on the stored arrays
        for name, arr in (('templates', np.asarray(g.tmpl_data, dtype=np.float64)),
                          ('clusters', np.asarray(m.sparse_clusters.data, dtype=np.float64))):
            pk = ctx.real(name + '_channels', lambda: getattr(m, name + '_channels'),
                          owners=('C09',))
            du = ctx.real(name + '_waveforms_durations',
                          lambda: getattr(m, name + '_waveforms_durations'), owners=('C09',))
            pp = arr.max(axis=1) - arr.min(axis=1)
            ctx.check(len(pk) == arr.shape[0] and len(du) == arr.shape[0], name + '-summary-length')
            for k in range(arr.shape[0]):
                mx = pp[k].max()
                cand = np.nonzero(pp[k] >= mx - 1e-12 * max(mx, 1e-300))[0]
                ctx.check(int(pk[k]) in cand, name + '-peak-channel',
                          lambda: {'id': k, 'got': int(pk[k]), 'candidates': cand.tolist()})
                if len(cand) == 1:
                    w = arr[k][:, cand[0]]
                    if (w == w.max()).sum() == 1 and (w == w.min()).sum() == 1:
                        exp = (int(np.argmax(w)) - int(np.argmin(w))) / g.sr * 1e3
                        ctx.check(abs(float(du[k]) - exp) <= 1e-9 * max(1.0, abs(exp)),
                                  name + '-duration', lambda: {'id': k, 'got': float(du[k]),
                                                               'expected': exp})
        tp = ctx.real('templates_probes', lambda: m.templates_probes, owners=('C09',))
        ctx.check(_aeq(tp, R.probes[np.asarray(m.templates_channels)]), 'templates-probes')
        # depths
        complete_rows = g.feat_rows is not None and len(g.feat_rows) == cfg['ns']
        if complete_rows:
            ctx.probe('complete_feature_row_table')
        if g.pc_features is not None and (g.feat_rows is None or complete_rows):
            d = ctx.real('get_depths', m.get_depths, owners=('C09',))
            exp = R.depths()
            ctx.probe('depths')
            if cfg['ns'] >= 50000:
                ctx.probe('batch_boundary_size')
            if np.isnan(exp).any():
                ctx.probe('zero_positive_part')
            ctx.check(d is not None and ref.close(d, exp, 1e-5, atol_scale=max(
                float(np.abs(g.pos[:, 1]).max()), 1.0)), 'spike-depths',
                lambda: {'got': _desc(d), 'expected': _desc(exp)})

    # ---------------------------------------------------------------------------------- C10
    def save_metadata(self, op):
        ctx, m = self.ctx, self.model
        vals = {int(k): v for k, v in op['values'].items()}
        ctx.real('save_metadata', m.save_metadata, op['field'], vals, owners=('C10',))
        if op['field'] in self.meta:
            ctx.probe('repeated_save')
        self.meta[op['field']] = {k: v for k, v in vals.items() if v is not None}
        if any(v is None for v in vals.values()):
            ctx.probe('none_dropped')
        if any(isinstance(v, str) and ('\t' in v or ',' in v) for v in vals.values()):
            ctx.probe('string_with_delimiter')
        self.torn_fields.discard(op['field'])
        ctx.op('save_metadata')
        ctx.ev('save_metadata', op['field'], sorted(self.meta[op['field']].items(),
                                                    key=lambda kv: kv[0]))

    def foreign(self, op):
        """Another tool (or a crash) leaves a TSV/CSV file in the directory."""
        ctx = self.ctx
        kind = op['kind']
        name = 'cluster_info' if kind == 'cluster_info' else op['name']
        path = self.dir / (name + op['ext'])
        delim = '\t' if op['ext'] == '.tsv' else ','
        if op.get('swap_delim'):
            # a tab-separated .csv (the legacy cluster_groups.csv layout) or a comma-separated .tsv
            delim = ',' if delim == '\t' else '\t'
            self.ctx.probe('foreign_file_extension_and_delimiter_disagree')
        fields = op['fields']
        buf = io.StringIO()
        wr = csv.writer(buf, delimiter=delim, lineterminator='\n')
        if kind in ('valid', 'valid_blank_first', 'collide_csv', 'cluster_info', 'header_only',
                    'ragged', 'no_cluster_id'):
            head = (['cluster_id'] if kind != 'no_cluster_id' else ['id']) + fields
            idc = op.get('id_col', 0)
            if idc:
                ctx.probe('foreign_id_column_not_first')
            place = lambda cells: cells[1:1 + idc] + cells[:1] + cells[1 + idc:]  # noqa
            wr.writerow(place(head))
            if kind == 'valid_blank_first':
                # a first data row without cluster id (or a blank line): skipped, the rest counts
                if len(fields) > 1:
                    wr.writerow([''] + ['orphan'] * len(fields))
                else:
                    buf.write('\n')
                ctx.probe('foreign_first_row_without_cluster_id')
            if kind != 'header_only':
                for i, row in enumerate(op['rows']):
                    cells = [row['cluster_id']] + [row.get(f, '') for f in fields]
                    if kind == 'ragged':
                        cells = cells[:1 + (i % (len(fields) + 1))] if i % 2 else cells + ['extra']
                    wr.writerow(place(cells) if idc else cells)
            path.write_text(buf.getvalue(), encoding='utf-8')
        elif kind == 'empty':
            path.write_bytes(b'')
        elif kind == 'garbage':
            path.write_bytes(bytes([0xff, 0xfe, 0x00, 0x9f, 0x0a, 0x22, 0x09, 0xc3, 0x28, 0x0a]) * 3)
        ctx.op('foreign')
        ctx.fault('foreign_metadata:' + kind)
        if kind == 'collide_csv':
            ctx.probe('legacy_csv_names_a_saved_field')
        if kind in ('valid', 'valid_blank_first', 'collide_csv'):
            for f in fields:
                mp = {}
                for row in op['rows']:
                    if f in row:
                        mp[int(row['cluster_id'])] = row[f]
                self.foreign_fields[f] = mp
        elif kind == 'cluster_info':
            self.forbidden_fields.update(fields)
        else:
            ctx.probe('foreign_malformed')
            if kind in ('ragged',):
                self.torn_fields.update(fields)  # contribution unspecified: not asserted

    def tear(self, op):
        """Crash fault: a file just written is left as a prefix of its content."""
        ctx = self.ctx
        if self.model is not None and op['target'] != 'metadata':
            return  # never tear a file a live model maps
        if op['target'] == 'metadata':
            path = self.dir / ('cluster_%s.tsv' % op['field'])
            if not path.exists() or op['field'] not in self.meta:
                return
            data = path.read_bytes()
            path.write_bytes(data[:int(len(data) * op['frac'])])
            self.torn_fields.add(op['field'])
            ctx.fault('tear_file:metadata')
            ctx.probe('torn_metadata')
        else:
            if self.store == 'absent' or self.retired:
                return
            path = self.dir / ('_phy_spikes_subset.%s.npy' % op['target'])
            if not path.exists():
                return
            data = path.read_bytes()
            cut = int(len(data) * op['frac'])
            if cut >= len(data):
                return
            path.write_bytes(data[:cut])
            self.store = 'torn'
            ctx.fault('tear_file:store_' + op['target'])
            ctx.probe('torn_store')
        ctx.op('tear')

    def save_subset(self, op):
        ctx, m = self.ctx, self.model
        if self.A is None or getattr(self, 'raw_removed', False):
            return
        # a model retired by a dirty reload may still map the store: rewriting it is outside the
        # simulation (DESIGN.md 2.1 "stale mappings"): close the retired models first.
        for r in self.retired:
            try:
                r.close()
            except Exception:
                pass
        self.retired = []
        np.random.seed(op['n'] * 7919 + 13)
        if op.get('crash_after') is not None:
            # I/O fault: the raw data source fails after a number of reads, i.e. in the middle of
            # the chunk-by-chunk export; the session dies there and a new one opens the directory
            real = m.traces
            m.traces = _FailingTraces(real, op['crash_after'])
            crashed = False
            try:
                ctx.real('save_spikes_subset_waveforms', m.save_spikes_subset_waveforms,
                         max_n_spikes_per_template=op['n'], sample2unit=op['factor'],
                         owners=('C03', 'C10', 'C17'))
            except RealCodeError as e:
                if not isinstance(e.exc, _SimulatedReadError):
                    raise
                crashed = True
            finally:
                m.traces = real
            if crashed:
                ctx.fault('raw_read_error_during_export')
                ctx.probe('export_interrupted_midway')
                ctx.op('save_subset_crashed')
                self.store = 'torn'
                self.store_factor = op['factor']
                self.close()
                self.load('reload')
                self.check_store(require=False)
                return
        else:
            ctx.real('save_spikes_subset_waveforms', m.save_spikes_subset_waveforms,
                     max_n_spikes_per_template=op['n'], sample2unit=op['factor'],
                     owners=('C03', 'C10', 'C17'))
        self.store = 'ok'
        self.store_factor = op['factor']
        ctx.op('save_subset')
        sw = m.spike_waveforms
        ctx.ev('save_subset', None if sw is None else np.asarray(sw.spike_ids))
        if ctx.prop in ('C03', 'C10'):
            self.check_store(require=True)
        if ctx.prop == 'C17':
            self.check_selection(op['n'])

    def check_selection(self, n):
        """C17 at model level: the spikes chosen by save_spikes_subset_waveforms honour the
        selector's constraints on the recording's own chunk grid (20 chunks kept)."""
        ctx, m, g, cfg = self.ctx, self.model, self.g, self.cfg
        sw = m.spike_waveforms
        if sw is None or np.asarray(sw.spike_ids).ndim != 1:
            ctx.skipped['single-spike-store-squeezed'] += 1
            return
        ids = [int(x) for x in np.asarray(sw.spike_ids)]
        bounds = [int(b) for b in m.traces.chunk_bounds]
        n_chunks = len(bounds) - 1
        ctx.check(all(a < b for a, b in zip(ids, ids[1:])), 'selection-not-strictly-increasing',
                  lambda: {'ids': ids[:20]})
        # the kept chunks are whole grid intervals at a regular stride from the first, at most 20:
        # find a stride consistent with the chosen spikes
        chunk_of = [int(np.searchsorted(bounds, int(g.samples[i]), side='right')) - 1
                    for i in range(cfg['ns'])]
        used = sorted(set(chunk_of[i] for i in ids))
        strides = [s_ for s_ in range(1, n_chunks + 1)
                   if len(range(0, n_chunks, s_)) <= 20 and all(u % s_ == 0 for u in used)]
        ctx.check(bool(strides), 'selected-spike-outside-kept-chunks',
                  lambda: {'chunks_used': used[:30], 'n_chunks': n_chunks})
        if n_chunks > 20:
            ctx.probe('more_than_20_chunks')
        # per template: all eligible spikes if at most n, else exactly n - for the largest
        # admissible set of kept chunks (smallest admissible stride)
        ok_any = False
        detail = None
        for s_ in strides:
            kept = set(range(0, n_chunks, s_))
            good = True
            for t in range(cfg['nt']):
                elig = [i for i in range(cfg['ns']) if g.stemplates[i] == t and chunk_of[i] in kept]
                chosen = [i for i in ids if g.stemplates[i] == t]
                if not set(chosen) <= set(elig):
                    good = False
                    detail = {'template': t, 'stride': s_, 'why': 'chosen spike not eligible'}
                    break
                if len(elig) <= n:
                    if chosen != elig:
                        good = False
                        detail = {'template': t, 'stride': s_, 'eligible': len(elig),
                                  'chosen': len(chosen), 'n': n}
                        break
                elif len(chosen) != n:
                    good = False
                    detail = {'template': t, 'stride': s_, 'eligible': len(elig),
                              'chosen': len(chosen), 'n': n}
                    break
            if good:
                ok_any = True
                break
        ctx.check(ok_any, 'wrong-number-of-spikes-for-cluster', lambda: detail)
        ctx.probe('model_level_selection_checked')

    def check_store(self, require=False):
        """Every stored waveform equals the window read from the raw data (x factor)."""
        ctx, m, g, cfg = self.ctx, self.model, self.g, self.cfg
        sw = m.spike_waveforms
        if self.store == 'absent' or self.A is None:
            return
        if sw is None:
            # torn store: phylib may refuse the store and fall back to the raw data
            ctx.check(self.store == 'torn' or not require, 'store-not-loaded',
                      lambda: {'store': self.store})
            return
        ids = np.asarray(sw.spike_ids)
        chs = np.asarray(sw.spike_channels)
        W = sw.waveforms
        if not _map_is_backed(W):
            ctx.fail('store-waveform-differs-from-raw-window',
                     {'why': 'the session still maps a waveform file that has since been '
                             'rewritten shorter: its store no longer matches the files'})
        if ids.ndim == 0:
            # a store holding exactly one spike: the loader squeezes that singleton dimension
            # (DESIGN.md 5.2, degenerate sizes are outside the claimed domain)
            ctx.skipped['single-spike-store-squeezed'] += 1
            return
        ctx.check(ids.ndim == 1 and chs.ndim == 2 and chs.shape[0] == len(ids)
                  and tuple(W.shape) == (len(ids), cfg['nsw'], chs.shape[1]), 'store-shapes',
                  lambda: {'ids': list(ids.shape), 'channels': list(chs.shape),
                           'waveforms': list(W.shape)})
        ctx.check(np.all((ids >= 0) & (ids < cfg['ns'])), 'store-spike-ids')
        eps = float(np.finfo(self.A.dtype).eps) if self.A.dtype.kind == 'f' else 0.0
        for i, s in enumerate(ids):
            exp = window_ref(self.A, g.samples[int(s)], cfg['nsw'], chs[i]).astype(np.float64) \
                * self.store_factor
            got = np.asarray(W[i], dtype=np.float64)
            ctx.check(_win_close(got, exp, eps),
                      'store-waveform-differs-from-raw-window',
                      lambda: {'spike': int(s), 'sample': int(g.samples[int(s)]),
                               'channels': chs[i].tolist()})
        ctx.probe('store_checked')

    def q_waveforms(self, op):
        """model.get_waveforms chooses the store or the raw data; either way the window."""
        ctx, m, g, cfg = self.ctx, self.model, self.g, self.cfg
        if self.A is None:
            return
        rs = np.random.RandomState(op['seed'])
        sw = m.spike_waveforms
        if sw is not None and np.asarray(sw.spike_ids).ndim == 0:
            ctx.skipped['single-spike-store-squeezed'] += 1
            return
        eps = float(np.finfo(self.A.dtype).eps) if self.A.dtype.kind == 'f' else 0.0
        if sw is not None and not _map_is_backed(sw.waveforms):
            ctx.fail('model-waveform-differs-from-raw-window',
                     {'why': 'the session still maps a waveform file that has since been '
                             'rewritten shorter'})
        if getattr(self, 'raw_removed', False) and sw is None:
            ctx.fail('store-not-loaded', {'why': 'raw recording removed, intact store present'})
        if sw is not None and (rs.rand() < 0.7 or getattr(self, 'raw_removed', False)):
            ids = np.asarray(sw.spike_ids)
            if len(ids) == 0:
                return
            k = rs.randint(1, min(len(ids), 6) + 1)
            pick = rs.permutation(len(ids))[:k]
            spikes = ids[pick]
            common = None
            for i in pick:
                row = set(int(c) for c in np.asarray(sw.spike_channels)[i] if c != -1)
                common = row if common is None else (common & row)
            if not common:
                return
            chans = list(rs.permutation(sorted(common))[:rs.randint(1, len(common) + 1)])
            factor = self.store_factor
            route = 'store_route'
        else:
            if sw is not None:
                # a non-stored spike makes phylib fall back to the raw data
                non = np.setdiff1d(np.arange(cfg['ns']), np.asarray(sw.spike_ids))
                if len(non) == 0:
                    return
                spikes = np.sort(rs.permutation(non)[:rs.randint(1, min(len(non), 4) + 1)])
                ctx.probe('non_stored_spike')
            else:
                spikes = np.sort(rs.permutation(cfg['ns'])[:rs.randint(1, min(cfg['ns'], 5) + 1)])
            chans = list(rs.permutation(cfg['nc'])[:rs.randint(1, cfg['nc'] + 1)])
            factor = 1.0
            route = 'raw_fallback_route'
        chans = [int(c) for c in chans]
        got = ctx.real('get_waveforms', m.get_waveforms, np.asarray(spikes, dtype=np.int64),
                       np.array(chans, dtype=np.int64), owners=('C03', 'C10'))
        ctx.op('q_waveforms', changes_state=False)
        ctx.probe(route)
        exp = np.stack([window_ref(self.A, g.samples[int(s)], cfg['nsw'], chans)
                        for s in spikes]).astype(np.float64) * factor
        gotf = np.asarray(got, dtype=np.float64)
        ctx.ev('q_waveforms', route, np.asarray(got))
        ctx.check(_win_close(gotf, exp, eps),
            'model-waveform-differs-from-raw-window',
            lambda: {'route': route, 'spikes': [int(s) for s in spikes], 'chans': chans,
                     'store': self.store})

    def check_persisted(self):
        """C10: what a freshly loaded model must show."""
        ctx, m, g = self.ctx, self.model, self.g
        ctx.check(_aeq(m.spike_clusters, self.current_clusters()), 'reloaded-spike-clusters',
                  lambda: {'got': _desc(m.spike_clusters),
                           'expected': _desc(self.current_clusters())})
        ctx.check(_aeq(m.spike_templates, g.stemplates), 'reloaded-spike-templates-changed')
        ctx.check(_aeq(m.spike_samples, g.samples) and ref.close(m.spike_times, g.samples / g.sr,
                                                                 1e-12),
                  'reloaded-spike-times-changed')
        md = m.metadata
        expected = dict(self.foreign_fields)
        for field, mp in self.meta.items():
            if field in self.foreign_fields and not mp:
                # an empty saved mapping next to another file defining the field: left open
                expected.pop(field, None)
                continue
            expected[field] = mp      # the saved cluster_<field>.tsv wins over other files
        for field, mp in expected.items():
            if field in self.torn_fields:
                continue
            got = md.get(field, {})
            same = (set(got.keys()) == set(mp.keys()) and all(
                type(got[k]) is type(mp[k]) and got[k] == mp[k] for k in mp))
            ctx.check(same, 'reloaded-metadata-field',
                      lambda: {'field': field, 'got': sorted(got.items())[:8],
                               'expected': sorted(mp.items())[:8],
                               'also_defined_by_legacy_csv': field in self.foreign_fields
                               and field in self.meta})
        for f in self.forbidden_fields:
            ctx.check(f not in md, 'cluster-info-file-not-ignored', lambda: {'field': f})
        self.check_store()


# --------------------------------------------------------------------------------------------------
# Execution
# --------------------------------------------------------------------------------------------------

def execute(plan, ctx):
    seams.import_phylib()
    cfg = plan['cfg']
    knobs = {}
    if cfg['knobs'].get('chunk'):
        knobs['chunk_duration'] = cfg['knobs']['chunk'] / cfg['sr']
    if 'n_closest_channels' in cfg['knobs']:
        knobs['n_closest_channels'] = cfg['knobs']['n_closest_channels']
    if 'amplitude_threshold' in cfg['knobs']:
        knobs['amplitude_threshold'] = cfg['knobs']['amplitude_threshold']
    counter = {}
    with seams.installed(listing=cfg.get('listing'), draw=cfg.get('draw'), seed=cfg['seed'],
                         pool=cfg.get('pool') or 'shuffled', counter=counter, knobs=knobs):
        try:
            run_ops(plan, ctx, cfg)
        finally:
            for k, v in counter.items():
                if k.startswith('listing:'):
                    ctx.probe(k, v)
                ctx.fault(k, v)


def run_ops(plan, ctx, cfg):
    prop = ctx.prop
    w = DatasetWorld(cfg, ctx)
    ctx.op('write_dataset')
    ctx.ev('dataset', sorted(world.snapshot(w.dir).items()))
    expect_reject = False
    for step, op in enumerate(plan['ops']):
        k = op['op']
        if k in ('load', 'reload', 'dirty_reload'):
            if expect_reject:
                try:
                    w.load(k)
                except RealCodeError as e:
                    # rejected: the statement does not fix the exception type
                    ctx.clauses += 1
                    ctx.ev(step, 'rejected', type(e.exc).__name__)
                    return
                ctx.fail('nonmonotonic-times-not-rejected')
            w.load(k)
            ctx.ev(step, k, np.asarray(w.model.spike_clusters))
            if prop == 'C04':
                w.check_attributes()
            elif prop == 'C08':
                w.check_clusters()
            elif prop == 'C10':
                w.check_persisted()
            elif prop == 'C03':
                w.check_store()
        elif k == 'swap_times':
            if w.model is None and w.swap_times(op['i']):
                expect_reject = True
                ctx.op('swap_times')
        elif k == 'close':
            w.close()
        elif k == 'remove_optional':
            if w.model is None:
                w.remove_optional(op['what'])
        elif k == 'rewrite_params':
            if w.model is None and w.cfg['names']['times'] == 'ks' and w.g.alf_times is None \
                    and not (w.cfg.get('raw') and w.cfg['raw'].get('format') == 'cbin'):
                # (a compressed recording carries its own sampling rate in its metadata file)
                pth = w.params
                st_ = os.stat(pth)
                lines_ = open(pth).read().split('\n')
                lines_ = [('sample_rate = %r' % op['sr']) if l.startswith('sample_rate') else l
                          for l in lines_]
                open(pth, 'w').write('\n'.join(lines_))
                os.utime(pth, ns=(st_.st_atime_ns, st_.st_mtime_ns))
                w.g.sr = op['sr']
                ctx.op('rewrite_params')
                ctx.probe('params_rewritten_between_sessions')
        elif k == 'remove_raw':
            if w.model is None and w.store == 'ok' and w.A is not None:
                for f in list(w.dir.iterdir()):
                    if f.name.startswith('raw') and (f.is_file() or f.is_symlink()):
                        f.unlink()
                w.raw_removed = True
                ctx.op('remove_raw')
                ctx.fault('raw_recording_removed_after_export')
                ctx.probe('store_without_raw_recording')
        elif k == 'tear':
            w.tear(op)
        elif k == 'foreign':
            w.foreign(op)
        elif w.model is None:
            continue
        elif k == 'q_traces':
            w.q_traces(op['seed'])
        elif k == 'load_again':
            w.load_again()
        elif k == 'load_other_listing':
            w.load_other_listing(op['listing'])
        elif k == 'q_template':
            w.q_template(op)
        elif k == 'q_cluster_channels':
            w.q_cluster_channels(op['c'])
        elif k == 'q_features':
            w.q_features(op)
        elif k == 'q_tfeatures':
            w.q_tfeatures(op)
        elif k == 'q_from_sparse':
            w.q_from_sparse(op)
        elif k == 'q_features_wf':
            w.q_features_wf(op)
        elif k == 'curate':
            w.curate(op['ops'])
        elif k == 'q_summaries':
            w.q_summaries(op)
        elif k == 'save_metadata':
            w.save_metadata(op)
        elif k == 'save_subset':
            w.save_subset(op)
        elif k == 'q_waveforms':
            w.q_waveforms(op)
        else:
            raise ValueError(k)
        ctx.state(*w.abstract_state())
