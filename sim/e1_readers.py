# -*- coding: utf-8 -*-
"""E1 — reader sessions over stored recordings (C01, C02, C03).

Real code: phylib.io.traces (get_ephys_reader, the four reader classes, lazy operator clones,
extract_waveforms, iter_waveforms, export_waveforms + NpyWriter, get_spike_waveforms), mtscomp
compression/decompression, the kernel file system, np.memmap / np.load.
Stubs: mtscomp's thread pool (sequential, simulator-ordered), tqdm (disabled).
"""

import copy
import os
import operator

import numpy as np

from . import seams
from .core import Discard, RealCodeError
from .recording import (Recording, gen_recording_cfg, knobs_for, window_ref, make_data)

NAME = 'E1'

COMPONENTS = {
    'real': ['phylib.io.traces: get_ephys_reader, FlatEphysReader, NpyEphysReader, '
             'ArrayEphysReader, MtscompEphysReader, operator clones, extract_waveforms, '
             'iter_waveforms, export_waveforms, NpyWriter, get_spike_waveforms',
             'mtscomp compress / Reader (real codec, real lru_cache around read_chunk)',
             'kernel file system under a per-run scratch directory, np.memmap, np.load, np.save'],
    'stub': ['mtscomp.ThreadPool -> SimPool (tasks run one at a time in a simulator-chosen order)',
             'tqdm disabled (TQDM_DISABLE=1)',
             'knobs set by the simulator: DEFAULT_CHUNK_DURATION, mtscomp chunk_duration, n_threads, '
             'cache_size, multiprocessing.cpu_count as seen by phylib.io.traces'],
}
STATE_MEASURE = ('(backend, #files, dtype, #chunks bucket, index kind, boundary class of the index '
                 '(interior / starts-on / ends-on / spans a file or chunk bound), column selector kind, '
                 'handle depth)')
RULE = {
    'C01': ('a plan = one stored recording (backend flat 1..4 files with header offset / npy / '
            'in-memory array / cbin; dtype; sizes; chunk and cache knobs) + a session of <= 40 reads '
            '(ints incl. negative and NumPy scalars, unit-step slices biased to file/chunk boundaries, '
            'strictly increasing index lists/arrays, optional column selector), each compared with '
            'NumPy indexing of the ground-truth array; distinct = distinct plan digests; non-trivial = '
            'at least one read compared after the reader was opened'),
    'C02': ('a plan = one stored recording + a handle tree built by interleaved derive (14 operators, '
            'int and float scalars), column-select and read ops issued in a simulator-chosen '
            'interleaving; every read is compared with the eagerly evaluated array, and after every '
            'derivation the parent and another handle are re-read; non-trivial = at least one read of '
            'a derived handle compared'),
    'C03': ('a plan = one stored recording + sorted spike vector with forced members on chunk / file / '
            'recording boundaries + per-spike channel lists + window + factor, and ops extract / export '
            '(chunk by chunk, cache on/off) / store lookup in random order; every returned window is '
            'compared with an independent loop reference; non-trivial = at least one route compared'),
}
ASSUMPTIONS = [
    'index lists/arrays hold non-negative indices in [0, n) (the statement lists "sample indices")',
    'reader[:, cols] with the full slice returns a derived reader (C02), so C01 never pairs the '
    'literal full slice with a column selector',
    'direct extraction is given ndarray channel lists (a Python list containing -1 is not generated)',
    'store lookups are only asserted on (spike, channel) pairs the store holds',
]
EXPECTED_PROBES = {
    'C01': ['slice_starts_on_file_bound', 'slice_ends_on_file_bound', 'slice_spans_files',
            'negative_bound', 'part_of_length_1', 'three_or_more_parts', 'header_offset',
            'array_index_with_cols', 'cbin_cache_eviction_possible', 'numpy_scalar_index',
            'file_order_differs_from_sorted_names', 'non_native_byte_order', 'npy_fortran_order',
            'recording_replaced_at_same_path_and_reopened',
            'cbin_index_list_not_implemented'],
    'C02': ['reflected_operator', 'cols_before_arith', 'cols_after_arith', 'depth_ge_3',
            'sibling_reread', 'integer_division', 'same_operator_twice_in_a_row',
            'numpy_scalar_operand', 'boolean_mask_selection',
            'equal_cols_on_two_handles', 'inexact_pow_chain'],
    'C03': ['spike_on_chunk_bound', 'spike_at_0', 'spike_at_last', 'window_exceeds_start',
            'window_exceeds_end', 'window_longer_than_recording', 'unsigned_spikes',
            'minus_one_channel', 'multi_chunk_export', 'cbin_export_cached', 'odd_window',
            'reader_used_between_routes', 'export_of_no_spike',
            'store_lookup_permuted', 'float_factor', 'int_factor', 'store_query_with_minus_one'],
}

BINOPS = ['add', 'radd', 'sub', 'rsub', 'mul', 'rmul', 'truediv', 'rtruediv', 'floordiv',
          'rfloordiv', 'pow', 'rpow']
UNOPS = ['pos', 'neg']


# --------------------------------------------------------------------------------------------------
# Encoded index expressions
# --------------------------------------------------------------------------------------------------

def dec_item(e):
    k = e['k']
    if k == 'int':
        v = e['v']
        if e.get('np'):
            return np.dtype(e['np']).type(v)
        return int(v)
    if k == 'slice':
        return slice(e['a'], e['b'], e.get('s'))
    if k == 'idx':
        if e['as'] == 'list':
            return list(e['v'])
        return np.array(e['v'], dtype=e['as'])
    raise ValueError(k)


def dec_cols(e):
    if e is None:
        return None
    if e['k'] == 'slice':
        return slice(e['a'], e['b'], e.get('s'))
    if e['k'] == 'mask':
        return np.array(e['v'], dtype=bool) if e['as'] == 'array' else [bool(x) for x in e['v']]
    if e['k'] == 'idx':
        return list(e['v']) if e['as'] == 'list' else np.array(e['v'], dtype=e['as'])
    raise ValueError(e['k'])


def _slice_len(n, a, b):
    return len(range(*slice(a, b, 1).indices(n)))


def gen_item(rng, n, bounds, allow_idx=True):
    """An index expression of the statement's domain, biased to boundaries."""
    r = rng.random()
    interesting = sorted(set([0, n - 1, n] + [b + d for b in bounds for d in (-1, 0, 1)]))
    interesting = [x for x in interesting if 0 <= x <= n]
    if r < 0.2:
        v = rng.randrange(-n, n)
        if rng.random() < 0.5:
            v = rng.choice([x for x in interesting if x < n] + [-1, -n])
        np_t = rng.choice([None, None, 'int64', 'int32', 'uint16']) if v >= 0 else \
            rng.choice([None, None, 'int64', 'int32'])
        return {'k': 'int', 'v': v, 'np': np_t}
    if r < 0.75 or not allow_idx:
        for _ in range(50):
            def bound():
                q = rng.random()
                if q < 0.15:
                    return None
                if q < 0.6:
                    x = rng.choice(interesting)
                else:
                    x = rng.randint(0, n)
                if rng.random() < 0.25:
                    x = x - n  # negative form of the same bound (x - n in [-n, 0])
                return x
            a, b = bound(), bound()
            if _slice_len(n, a, b) >= 1:
                return {'k': 'slice', 'a': a, 'b': b, 's': rng.choice([None, None, 1])}
        return {'k': 'slice', 'a': None, 'b': None, 's': None}
    k = rng.randint(1, min(n, 8))
    if rng.random() < 0.1:
        k = n
    v = sorted(rng.sample(range(n), k))
    if rng.random() < 0.4 and len(interesting) > 1:
        v = sorted(set(x for x in rng.sample(interesting, min(len(interesting), k)) if x < n)) or v
    return {'k': 'idx', 'v': v, 'as': rng.choice(['list', 'int64', 'int32', 'uint64'])}


def gen_cols(rng, c, p_none=0.4):
    r = rng.random()
    if r < p_none:
        return None
    if r < p_none + 0.15:
        a = rng.choice([None, 0, rng.randrange(c)])
        b = rng.choice([None, c, rng.randint(1, c)])
        if len(range(*slice(a, b, 1).indices(c))) >= 1:
            return {'k': 'slice', 'a': a, 'b': b, 's': None}
        return {'k': 'slice', 'a': None, 'b': None, 's': None}
    if r < p_none + 0.25:
        if rng.random() < 0.4 and c >= 2:
            # strided slices: every 2nd / 3rd channel, forwards or backwards, whole range or part
            a = rng.choice([None, None, 0, rng.randrange(c)])
            b = rng.choice([None, None, c, rng.randint(1, c)])
            st = rng.choice([2, 3, -2])
            if st < 0:
                a, b = None, None
            if len(range(*slice(a, b, st).indices(c))) >= 1:
                return {'k': 'slice', 'a': a, 'b': b, 's': st}
        return {'k': 'slice', 'a': None, 'b': None, 's': -1}
    if r < p_none + 0.4:
        v = list(range(c))
        rng.shuffle(v)
        return {'k': 'idx', 'v': v, 'as': rng.choice(['list', 'int64'])}
    k = rng.randint(1, c)
    v = [rng.randrange(c) for _ in range(k)] if rng.random() < 0.3 else rng.sample(range(c), k)
    if rng.random() < 0.15:
        # channels counted from the end (-1 is the last channel)
        v = [x - c if rng.random() < 0.6 else x for x in v]
    return {'k': 'idx', 'v': v, 'as': rng.choice(['list', 'int64', 'int32'])}


# --------------------------------------------------------------------------------------------------
# Generation
# --------------------------------------------------------------------------------------------------

def _bounds_hint(cfg):
    n = cfg['n']
    b = set([0, n])
    acc = 0
    for p in cfg['parts']:
        acc += p
        b.add(acc)
    size = cfg.get('cbin_chunk') if cfg['backend'] == 'cbin' else cfg.get('chunk')
    if size:
        b.update(range(0, n, size))
    return sorted(b)


def gen(rng, prop, tier):
    big = tier == 'thorough'
    if prop == 'C01':
        cfg = gen_recording_cfg(rng, prop, tier, max_n=96 if big else 64)
        n, c = cfg['n'], cfg['c']
        bounds = _bounds_hint(cfg)
        ops = []
        for _ in range(rng.randint(1, 40 if big else 24)):
            if cfg['backend'] == 'cbin' and rng.random() < 0.08:
                ops.append({'op': 'iter_chunks', 'cache': rng.random() < 0.7})
                continue
            item = gen_item(rng, n, bounds)
            cols = gen_cols(rng, c)
            if cols is not None and item['k'] == 'slice' and item['a'] is None \
                    and item['b'] is None and item.get('s') is None:
                item['a'] = 0
            ops.append({'op': 'read', 'h': 0, 'item': item, 'cols': cols})
        if cfg['backend'] in ('flat', 'npy') and rng.random() < 0.12:
            # history: the recording is REPLACED at the same path(s) (another length, other
            # samples) and opened again in the same process
            n2 = max(1, n + rng.choice([-5, -1, 3, 11]))
            from .recording import composition
            cfg2 = dict(cfg, n=n2, data_seed=rng.randint(0, 2 ** 31),
                        parts=composition(rng, n2, len(cfg['parts'])) if cfg['backend'] == 'flat'
                        else [n2])
            if len(cfg2['parts']) == len(cfg['parts']):
                ops.append({'op': 'reopen', 'n': n2, 'data_seed': cfg2['data_seed'],
                            'parts': cfg2['parts']})
                bounds2 = _bounds_hint(cfg2)
                for _ in range(rng.randint(1, 8)):
                    item = gen_item(rng, n2, bounds2)
                    cols = gen_cols(rng, c)
                    if cols is not None and item['k'] == 'slice' and item['a'] is None \
                            and item['b'] is None and item.get('s') is None:
                        item['a'] = 0
                    ops.append({'op': 'read', 'h': 0, 'item': item, 'cols': cols})
        return {'engine': NAME, 'cfg': cfg, 'ops': ops}
    if prop == 'C02':
        cfg = gen_recording_cfg(rng, prop, tier, max_n=40, max_c=5)
        n, c = cfg['n'], cfg['c']
        bounds = _bounds_hint(cfg)
        ops = []
        widths = {0: c}
        depth = {0: 0}
        nh = 1
        for _ in range(rng.randint(2, 30 if big else 20)):
            r = rng.random()
            if r < 0.4 and nh < 12:
                h = rng.randrange(nh)
                if depth[h] >= 5:
                    continue
                if rng.random() < 0.22:
                    if widths[h] == 0:
                        continue
                    cols = gen_cols(rng, widths[h], p_none=0.0)
                    if rng.random() < 0.12:
                        # a boolean channel mask (NumPy semantics: the columns where it is True)
                        mask = [rng.random() < 0.6 for _ in range(widths[h])]
                        if not any(mask):
                            mask[rng.randrange(widths[h])] = True
                        cols = {'k': 'mask', 'v': mask, 'as': rng.choice(['array', 'list'])}
                    if rng.random() < 0.04:
                        cols = {'k': 'idx', 'v': [], 'as': 'list'}   # no channel at all: width 0
                    empty = cols['k'] == 'idx' and cols['v'] == []
                    w = 0 if empty else len(np.arange(widths[h])[dec_cols(cols)])
                    if w < 1 and not empty:
                        continue
                    ops.append({'op': 'select', 'h': h, 'cols': cols})
                    widths[nh] = w
                else:
                    o = rng.choice(BINOPS + UNOPS)
                    if o in UNOPS:
                        k = None
                    elif rng.random() < 0.55:
                        k = rng.choice([1, 2, 3, -1, -2, 5, 0, 7])
                        if rng.random() < 0.25:
                            # large scalars: each fits the sample dtype, two in a row may not
                            k = rng.choice({'int16': [20000, 30000, -20000, 200],
                                            'uint8': [200, 100, 150, 16],
                                            'int32': [2 ** 30, 50000, -2 ** 30]}.get(
                                                cfg['dtype'], [20000, 3, 7]))
                            if ops and ops[-1].get('op') == 'derive' and rng.random() < 0.6:
                                o = ops[-1]['o'] if ops[-1]['o'] in ('add', 'mul') else o
                                h = nh - 1 if ops[-1]['o'] in ('add', 'mul') else h
                    else:
                        k = rng.choice([0.5, 2.5, -1.5, 1.0, 3.0, -0.25])
                    op_ = {'op': 'derive', 'h': h, 'o': o, 'k': k}
                    if k is not None and not o.startswith('r') and rng.random() < 0.15:
                        # a NumPy scalar operand (strongly typed under NEP 50)
                        op_['knp'] = rng.choice(['float32', 'float64', 'int16', 'int64']) \
                            if isinstance(k, int) else rng.choice(['float32', 'float64'])
                    ops.append(op_)
                    widths[nh] = widths[h]
                depth[nh] = depth[h] + 1
                nh += 1
            else:
                h = rng.randrange(nh)
                if rng.random() < 0.6:
                    h = nh - 1
                item = gen_item(rng, n, bounds)
                cols = gen_cols(rng, widths[h], p_none=0.7) if widths[h] else None
                if cols is not None and item['k'] == 'slice' and item['a'] is None \
                        and item['b'] is None and item.get('s') is None:
                    item['a'] = 0
                ops.append({'op': 'read', 'h': h, 'item': item, 'cols': cols})
        return {'engine': NAME, 'cfg': cfg, 'ops': ops}
    if prop == 'C03':
        cfg = gen_recording_cfg(
            rng, prop, tier, backends=['flat', 'flat', 'flat', 'cbin', 'npy', 'array'],
            dtypes=['int16', 'float32', 'float64'], max_n=400 if big else 120, max_c=8)
        if cfg['backend'] == 'flat' and len(cfg['parts']) > 3:
            cfg['parts'] = cfg['parts'][:2] + [sum(cfg['parts'][2:])]
        n, c = cfg['n'], cfg['c']
        if cfg['chunk'] is not None:
            cfg['chunk'] = rng.choice([3, 5, 8, 13, max(3, n // 4), n, 2 * n])
        bounds = _bounds_hint(cfg)
        w = rng.randint(1, 12)
        if rng.random() < 0.08:
            w = n + rng.randint(1, 4) if n < 30 else w
        # spikes
        forced = set([0, n - 1])
        for x in (w // 2 - 1, w // 2, w // 2 + 1, n - w // 2 - 1, n - w // 2, n - (w - w // 2),
                  n - (w - w // 2) - 1):
            forced.add(x)
        for b in bounds:
            forced.update([b - 1, b, b + 1])
        forced = sorted(x for x in forced if 0 <= x < n)
        k_forced = rng.randint(0, len(forced))
        spikes = rng.sample(forced, k_forced)
        n_rand = rng.randint(0, 60 if big else 30)
        spikes += [rng.randrange(n) for _ in range(n_rand)]
        if not spikes:
            spikes = [rng.randrange(n)]
        if rng.random() < 0.3 and spikes:
            spikes += [rng.choice(spikes)]  # duplicate
        spikes = sorted(spikes)[:60]
        n_loc = rng.randint(1, min(c, 5))
        chans = []
        for _ in spikes:
            row = rng.sample(range(c), n_loc)
            if rng.random() < 0.3:
                for j in range(rng.randint(1, n_loc)):
                    row[-1 - j] = -1
            chans.append(row)
        sc = {'spikes': spikes, 'spike_dtype': rng.choice(['int64', 'int32', 'uint64', 'uint32']),
              'chans': chans, 'w': w,
              'factor': rng.choice([1, 2, 1.0, 2.5, 0.5])}
        cfg['scenario'] = sc
        ops = []
        for _ in range(rng.randint(1, 5)):
            r = rng.random()
            if ops and rng.random() < 0.25:
                # another use of the same reader object between two waveform routes
                a = rng.randrange(n)
                ops.append({'op': 'touch', 'kind': rng.choice(['cols', 'cols', 'mul', 'derive_cols']),
                            'a': a, 'b': rng.randint(a + 1, n),
                            'cols': rng.sample(range(c), rng.randint(1, c)),
                            'k': rng.choice([2, 3, -1, 0.5])})
            if r < 0.3:
                ids = sorted(rng.sample(range(len(spikes)), rng.randint(1, min(len(spikes), 10))))
                row = rng.sample(range(c), rng.randint(1, min(c, 4)))
                if rng.random() < 0.3:
                    row[rng.randrange(len(row))] = -1
                ops.append({'op': 'extract', 'ids': ids, 'chans': row,
                            'as': rng.choice(['int64', 'int32'])})
            elif r < 0.75:
                ops.append({'op': 'export', 'cache': rng.random() < 0.5})
                if rng.random() < 0.12:
                    # an export of NO spike, to a fresh path or over an earlier export
                    ops.append({'op': 'export_empty', 'over': rng.random() < 0.5})
            else:
                ids = list(range(len(spikes)))
                # store spike ids must be distinct: the store indexes spikes by id
                q = rng.sample(ids, rng.randint(1, min(len(ids), 8)))
                qc = rng.sample(range(c), rng.randint(1, min(c, 4)))
                if rng.random() < 0.3:
                    # channels given as -1 in the query: zero columns
                    for _ in range(rng.randint(1, 2)):
                        qc.insert(rng.randrange(len(qc) + 1), -1)
                ops.append({'op': 'store_lookup', 'query': q, 'chans': qc,
                            'cache': rng.random() < 0.5,
                            'ids_as': rng.choice(['list', 'int64'])})
        return {'engine': NAME, 'cfg': cfg, 'ops': ops}
    raise ValueError(prop)


def simplify(plan):
    cfg = plan['cfg']
    for key, simple in (('offset', 0), ('pool', 'forward' if cfg.get('pool') else None),
                        ('cache_size', None), ('via_path', True), ('ext', '.dat'),
                        ('naming', 'indexed')):
        if cfg.get(key) != simple and key in cfg:
            p = copy.deepcopy(plan)
            p['cfg'][key] = simple
            yield p
    if cfg['backend'] == 'flat' and len(cfg['parts']) > 1:
        p = copy.deepcopy(plan)
        p['cfg']['parts'] = [cfg['n']]
        yield p
        for i in range(len(cfg['parts']) - 1):
            p = copy.deepcopy(plan)
            pp = list(cfg['parts'])
            pp[i:i + 2] = [pp[i] + pp[i + 1]]
            p['cfg']['parts'] = pp
            yield p
    if cfg['backend'] in ('flat', 'npy') and 'scenario' not in cfg:
        p = copy.deepcopy(plan)
        p['cfg']['backend'] = 'array'
        p['cfg']['parts'] = [cfg['n']]
        p['cfg']['offset'] = 0
        yield p
    if cfg.get('chunk') is not None:
        p = copy.deepcopy(plan)
        p['cfg']['chunk'] = None
        yield p
    for j, op in enumerate(plan['ops']):
        if op.get('cols') is not None:
            p = copy.deepcopy(plan)
            p['ops'][j]['cols'] = None
            yield p
        if op['op'] == 'read' and op['item']['k'] == 'idx' and len(op['item']['v']) > 1:
            for i in range(len(op['item']['v'])):
                p = copy.deepcopy(plan)
                del p['ops'][j]['item']['v'][i]
                yield p
        if op['op'] == 'read' and op['item']['k'] == 'int' and op['item'].get('np'):
            p = copy.deepcopy(plan)
            p['ops'][j]['item']['np'] = None
            yield p
        if op['op'] in ('export', 'store_lookup') and op.get('cache'):
            p = copy.deepcopy(plan)
            p['ops'][j]['cache'] = False
            yield p
        if op['op'] in ('extract',) and len(op['ids']) > 1:
            for i in range(len(op['ids'])):
                p = copy.deepcopy(plan)
                del p['ops'][j]['ids'][i]
                yield p
        if op['op'] == 'store_lookup' and len(op['query']) > 1:
            for i in range(len(op['query'])):
                p = copy.deepcopy(plan)
                del p['ops'][j]['query'][i]
                yield p
    sc = cfg.get('scenario')
    if sc:
        if len(sc['spikes']) > 1:
            used = set()
            for op in plan['ops']:
                used.update(op.get('ids', []))
                used.update(op.get('query', []))
            for i in reversed(range(len(sc['spikes']))):
                if any(u >= len(sc['spikes']) - 1 for u in used) or i in used:
                    continue
                p = copy.deepcopy(plan)
                del p['cfg']['scenario']['spikes'][i]
                del p['cfg']['scenario']['chans'][i]
                # re-index op references above i
                for op in p['ops']:
                    for key in ('ids', 'query'):
                        if key in op:
                            op[key] = [u - 1 if u > i else u for u in op[key]]
                yield p
        if sc['factor'] != 1:
            p = copy.deepcopy(plan)
            p['cfg']['scenario']['factor'] = 1
            yield p
        if sc['spike_dtype'] != 'int64':
            p = copy.deepcopy(plan)
            p['cfg']['scenario']['spike_dtype'] = 'int64'
            yield p


def validate(plan):
    cfg = plan['cfg']
    if sum(cfg['parts']) != cfg['n']:
        return False
    sc = cfg.get('scenario')
    if sc:
        if not sc['spikes'] or len(sc['spikes']) != len(sc['chans']):
            return False
        ns = len(sc['spikes'])
        for op in plan['ops']:
            for key in ('ids', 'query'):
                if key in op and (not op[key] or any(u >= ns or u < 0 for u in op[key])):
                    return False
    return True


# --------------------------------------------------------------------------------------------------
# Execution
# --------------------------------------------------------------------------------------------------

def _same_dtype(a, b):
    """dtype equality up to byte order (a byte-swapped block holds the same values)."""
    return np.dtype(a).newbyteorder('=') == np.dtype(b).newbyteorder('=')


def _eq(a, b):
    a = np.asarray(a)
    b = np.asarray(b)
    if a.shape != b.shape or not _same_dtype(a.dtype, b.dtype):
        return False
    if a.dtype.kind in 'fc':
        return bool(np.array_equal(a, b, equal_nan=True))
    return bool(np.array_equal(a, b))


def _eq_ulps(a, b, ulps=8):
    """Equality for results of float arithmetic: same shape and dtype, values within a few ulps.
    NumPy evaluates pow/divide through different SIMD / scalar-remainder paths depending on the
    size and alignment of the block, so the last bit of one element may differ between the whole
    array and a block of rows; integer results stay exact."""
    a = np.asarray(a)
    b = np.asarray(b)
    if a.shape != b.shape or not _same_dtype(a.dtype, b.dtype):
        return False
    if a.dtype.kind not in 'fc':
        return bool(np.array_equal(a, b))
    with np.errstate(all='ignore'):
        na, nb = np.isnan(a), np.isnan(b)
        if not np.array_equal(na, nb):
            return False
        ia, ib = np.isinf(a), np.isinf(b)
        if not np.array_equal(ia, ib) or not np.array_equal(a[ia], b[ib]):
            return False
        fin = ~(na | ia)
        eps = np.finfo(a.dtype).eps
        d = np.abs(a[fin].astype(np.float64) - b[fin].astype(np.float64))
        tol = ulps * eps * np.maximum(np.abs(a[fin]), np.abs(b[fin])).astype(np.float64) \
            + np.finfo(a.dtype).tiny
        return bool(np.all(d <= tol))


POW_ULPS = 16


def _env_step(E, E2, env, o, k):
    """Envelope of admissible values after one more operator (DESIGN.md 11: float `**` is the one
    operator NumPy does not round correctly, and its SIMD and scalar loops may differ in the last
    bits between the whole array and a block of rows; every later operator then propagates -- and
    under cancellation amplifies -- that difference). env = (LO, HI, UND) or None for an exact
    chain. All other operators are correctly rounded and piecewise monotone, so the image of an
    interval is spanned by the images of its end points; where it is not (a pole or a sign change
    inside the interval) the element is marked undecidable."""
    is_pow = o in ('pow', 'rpow') and np.asarray(E2).dtype.kind == 'f'
    if env is None and not is_pow:
        return None
    if env is None:
        LO, HI, UND = E, E, np.zeros(np.shape(E), dtype=bool)
    else:
        LO, HI, UND = env
    with np.errstate(all='ignore'):
        fl = np.asarray(_apply_eager(LO, o, k))
        fh = np.asarray(_apply_eager(HI, o, k))
        mid = np.asarray(E2)
        nl, nh, nm = np.isnan(fl), np.isnan(fh), np.isnan(mid)
        und = UND | (nl != nm) | (nh != nm)
        lo64, hi64 = np.asarray(LO, dtype=np.float64), np.asarray(HI, dtype=np.float64)
        wide = lo64 != hi64
        has0 = (lo64 <= 0) & (hi64 >= 0)
        kk = float(k) if k is not None else 0.0
        if o in ('rtruediv', 'rfloordiv', 'pow'):
            und = und | (wide & has0)
        if o in ('truediv', 'floordiv') and kk == 0:
            und = und | has0
        if o == 'rpow':
            if kk < 0:
                und = und | wide
            elif kk == 0:
                und = und | (wide & has0)
        newlo = np.fmin(np.fmin(fl, fh), mid)
        newhi = np.fmax(np.fmax(fl, fh), mid)
        if is_pow:
            sp_lo = np.spacing(np.abs(newlo))
            sp_hi = np.spacing(np.abs(newhi))
            newlo = np.where(np.isfinite(newlo), newlo - POW_ULPS * sp_lo, newlo).astype(mid.dtype)
            newhi = np.where(np.isfinite(newhi), newhi + POW_ULPS * sp_hi, newhi).astype(mid.dtype)
    return newlo, newhi, und


def _in_envelope(got, mid, lo, hi, und):
    got = np.asarray(got)
    mid = np.asarray(mid)
    if got.shape != mid.shape or not _same_dtype(got.dtype, mid.dtype):
        return False
    with np.errstate(all='ignore'):
        ng, nm = np.isnan(got), np.isnan(mid)
        ok = und | (ng & nm) | (~ng & ~nm & (lo <= got) & (got <= hi))
    return bool(np.all(ok))


def _describe(a):
    if not isinstance(a, np.ndarray):
        return {'not_an_array': '<%s>' % type(a).__name__}
    return {'shape': list(a.shape), 'dtype': str(a.dtype),
            'head': np.asarray(a).ravel()[:8].tolist()}


def _boundary_class(item, n, bounds):
    if item['k'] != 'slice':
        return item['k']
    a, b, _ = slice(item['a'], item['b'], 1).indices(n)
    inner = [x for x in bounds if 0 < x < n]
    cls = []
    if a in inner:
        cls.append('starts-on')
    if b in inner:
        cls.append('ends-on')
    if any(a < x < b for x in inner):
        cls.append('spans')
    return '+'.join(cls) or 'interior'


def _apply_eager(E, o, k):
    with np.errstate(all='ignore'):
        if o == 'pos':
            return +E
        if o == 'neg':
            return -E
        f = {'add': operator.add, 'sub': operator.sub, 'mul': operator.mul,
             'truediv': operator.truediv, 'floordiv': operator.floordiv, 'pow': operator.pow}
        if o.startswith('r'):
            return f[o[1:]](k, E)
        return f[o](E, k)


def _apply_lazy(h, o, k):
    if o == 'pos':
        return +h
    if o == 'neg':
        return -h
    f = {'add': operator.add, 'sub': operator.sub, 'mul': operator.mul,
         'truediv': operator.truediv, 'floordiv': operator.floordiv, 'pow': operator.pow}
    if o.startswith('r'):
        return f[o[1:]](k, h)
    return f[o](h, k)


def _expected_read(E, item, cols):
    it = dec_item(item)
    if item['k'] == 'int':
        v = int(item['v'])
        rows = E[v:v + 1] if v >= 0 else E[[v]]
    else:
        rows = E[it]
    if cols is not None:
        rows = rows[:, dec_cols(cols)]
    return rows


def execute(plan, ctx):
    seams.import_phylib()
    cfg = plan['cfg']
    prop = ctx.prop
    counter = {}
    with seams.installed(pool=cfg.get('pool') or 'forward', seed=cfg['data_seed'],
                         counter=counter, knobs=knobs_for(cfg)):
        try:
            _execute(plan, ctx, cfg, prop)
        finally:
            for k, v in counter.items():
                ctx.fault(k, v)


def _execute(plan, ctx, cfg, prop):
    root = ctx.scratch()
    rec = Recording(cfg, root, ctx)
    A = rec.A
    n, c = A.shape
    reader = rec.reader
    ctx.op('open')
    ctx.ev('open', cfg['backend'], cfg['parts'], cfg['dtype'], cfg['offset'])
    bounds = _bounds_hint(cfg)
    if 1 in cfg['parts'] and len(cfg['parts']) > 1:
        ctx.probe('part_of_length_1')
    if len(cfg['parts']) >= 3:
        ctx.probe('three_or_more_parts')
    if cfg['offset']:
        ctx.probe('header_offset')
    if len(cfg['parts']) > 1 and cfg.get('naming', 'indexed') != 'indexed':
        ctx.probe('file_order_differs_from_sorted_names')

    if prop == 'C01':
        # attributes
        ctx.check(tuple(reader.shape) == (n, c), 'reader-shape',
                  lambda: {'got': list(reader.shape), 'expected': [n, c]})
        ctx.check(reader.n_samples == n, 'reader-n_samples')
        ctx.check(reader.n_channels == c, 'reader-n_channels')
        ctx.check(_same_dtype(reader.dtype, A.dtype), 'reader-dtype',
                  lambda: {'got': str(reader.dtype), 'expected': str(A.dtype)})
        ctx.check(abs(reader.duration - n / cfg['sr']) <= 1e-12 * max(1.0, n / cfg['sr']),
                  'reader-duration', lambda: {'got': reader.duration, 'expected': n / cfg['sr']})
        ctx.check([int(x) for x in reader.part_bounds] == [int(x) for x in rec.expected_part_bounds()],
                  'reader-part_bounds',
                  lambda: {'got': [int(x) for x in reader.part_bounds],
                           'expected': [int(x) for x in rec.expected_part_bounds()]})
        if cfg['backend'] == 'cbin' and cfg.get('cache_size') and \
                cfg['cache_size'] < (n + cfg['cbin_chunk'] - 1) // cfg['cbin_chunk']:
            ctx.probe('cbin_cache_eviction_possible')

    handles = {0: reader}
    eager = {0: A}
    env = {0: None}
    depth = {0: 0}
    cols_seen = {0: False}
    arith_seen = {0: False}
    last_read = {}
    last_derive = {}
    cols_used = {}

    def do_read(step, h, item, cols, clause):
        it = dec_item(item)
        co = dec_cols(cols)
        E = eager[h]
        with np.errstate(all='ignore'):
            expected = _expected_read(E, item, cols)
        key = it if co is None else (it, co)
        try:
            got = ctx.real('read', lambda: handles[h][key])
        except RealCodeError as e:
            if isinstance(e.exc, NotImplementedError) and cfg['backend'] == 'cbin' \
                    and item['k'] == 'idx':
                ctx.probe('cbin_index_list_not_implemented')
                ctx.ev(step, 'read', h, 'NotImplementedError')
                return
            raise
        ctx.ev(step, 'read', h, got if isinstance(got, np.ndarray) else type(got).__name__)
        if env[h] is not None and isinstance(got, np.ndarray):
            with np.errstate(all='ignore'):
                lo, hi, und = [_expected_read(x, item, cols) for x in env[h]]
            same = _in_envelope(got, expected, lo, hi, und)
            ctx.probe('inexact_pow_chain')
        else:
            same = _eq(got, expected) if depth[h] == 0 else _eq_ulps(got, expected)
        ctx.check(isinstance(got, np.ndarray) and same, clause,
                  lambda: {'step': step, 'item': item, 'cols': cols, 'got': _describe(got),
                           'expected': _describe(expected), 'parts': cfg['parts']})
        ctx.state(cfg['backend'], len(cfg['parts']), cfg['dtype'], min(len(bounds), 6), item['k'],
                  _boundary_class(item, n, bounds), None if cols is None else cols['k'], depth[h])
        # probes
        if item['k'] == 'slice':
            cls = _boundary_class(item, n, rec.expected_part_bounds())
            if 'starts-on' in cls:
                ctx.probe('slice_starts_on_file_bound')
            if 'ends-on' in cls:
                ctx.probe('slice_ends_on_file_bound')
            if 'spans' in cls:
                ctx.probe('slice_spans_files')
            if (item['a'] is not None and item['a'] < 0) or (item['b'] is not None and item['b'] < 0):
                ctx.probe('negative_bound')
        if item['k'] == 'idx' and item['as'] != 'list' and cols is not None:
            ctx.probe('array_index_with_cols')
        if item['k'] == 'int' and item.get('np'):
            ctx.probe('numpy_scalar_index')

    if prop in ('C01', 'C02'):
        for step, op in enumerate(plan['ops']):
            k = op['op']
            if k == 'read':
                if op['h'] not in handles:
                    continue
                ctx.op('read', changes_state=False)
                do_read(step, op['h'], op['item'], op['cols'],
                        'read-equals-numpy' if prop == 'C01' else 'lazy-read-equals-eager')
                last_read[op['h']] = (op['item'], op['cols'])
            elif k == 'reopen':
                rec.close()
                for pth in rec.paths:       # replaced, not rewritten in place: new files
                    try:
                        os.unlink(str(pth))
                    except OSError:
                        pass
                cfg = dict(cfg, n=op['n'], data_seed=op['data_seed'], parts=list(op['parts']))
                rec = Recording(cfg, root, ctx)
                A = rec.A
                n, c = A.shape
                reader = rec.reader
                bounds = _bounds_hint(cfg)
                handles, eager, env, depth = {0: reader}, {0: A}, {0: None}, {0: 0}
                last_read.clear()
                ctx.op('reopen')
                ctx.probe('recording_replaced_at_same_path_and_reopened')
                ctx.check(tuple(reader.shape) == (n, c), 'reader-shape',
                          lambda: {'got': list(reader.shape), 'expected': [n, c],
                                   'after': 'the files were replaced and the recording reopened'})
            elif k == 'iter_chunks':
                ctx.op('iter_chunks')
                got = ctx.real('iter_chunks', lambda: list(reader.iter_chunks(cache=op['cache'])))
                ctx.ev(step, 'iter_chunks', [[int(a), int(b)] for a, b in got])
            elif k in ('derive', 'select'):
                h = op['h']
                if h not in handles:
                    continue
                new = max(handles) + 1
                E = eager[h]
                if k == 'derive':
                    kval = op['k']
                    # (reflected operators never get a NumPy scalar: `np.int64(3) + reader` makes
                    # NumPy convert the scalar to a Python int before the reader ever sees it)
                    if op.get('knp') and kval is not None and not op['o'].startswith('r'):
                        try:
                            kval = np.dtype(op['knp']).type(kval)
                            ctx.probe('numpy_scalar_operand')
                        except (OverflowError, ValueError):
                            kval = op['k']
                    try:
                        with np.errstate(all='ignore'):
                            E2 = _apply_eager(E, op['o'], kval)
                    except Exception:
                        ctx.skipped['eager-evaluation-raises'] += 1
                        # keep handle numbering stable: the slot aliases its parent
                        handles[new] = handles[h]
                        eager[new] = eager[h]
                        env[new] = env[h]
                        depth[new] = depth[h]
                        cols_seen[new] = cols_seen[h]
                        arith_seen[new] = arith_seen[h]
                        continue
                    env2 = _env_step(E, E2, env[h], op['o'], kval)
                    H2 = ctx.real('derive', _apply_lazy, handles[h], op['o'], kval)
                    if op['o'].startswith('r'):
                        ctx.probe('reflected_operator')
                    if last_derive.get(h) == op['o']:
                        ctx.probe('same_operator_twice_in_a_row')
                    last_derive[new] = op['o']
                    if op['o'] in ('floordiv', 'rfloordiv', 'truediv', 'rtruediv') \
                            and E.dtype.kind in 'iu':
                        ctx.probe('integer_division')
                    if cols_seen[h]:
                        ctx.probe('cols_before_arith')
                    cols_seen[new] = cols_seen[h]
                    arith_seen[new] = True
                else:
                    co = dec_cols(op['cols'])
                    key = str(op['cols'])
                    if op['cols']['k'] == 'mask':
                        ctx.probe('boolean_mask_selection')
                    if key in cols_used and cols_used[key] != h:
                        ctx.probe('equal_cols_on_two_handles')
                    cols_used[key] = h
                    E2 = E[:, co]
                    env2 = None if env[h] is None else tuple(x[:, co] for x in env[h])
                    H2 = ctx.real('select', lambda: handles[h][:, co])
                    if arith_seen[h]:
                        ctx.probe('cols_after_arith')
                    cols_seen[new] = True
                    arith_seen[new] = arith_seen[h]
                ctx.check(hasattr(H2, '__getitem__') and not isinstance(H2, np.ndarray)
                          and hasattr(H2, 'iter_chunks'), 'derived-object-is-a-reader',
                          lambda: {'type': type(H2).__name__})
                handles[new] = H2
                eager[new] = E2
                env[new] = env2
                depth[new] = depth[h] + 1
                if depth[new] >= 3:
                    ctx.probe('depth_ge_3')
                ctx.op(k)
                ctx.ev(step, k, h, op.get('o'), op.get('k'), op.get('cols'))
                # non-interference: the parent and another handle still return what they did
                whole = {'k': 'slice', 'a': None, 'b': None, 's': None}
                item, cols = last_read.get(h, (whole, None))
                do_read(step, h, item, cols, 'parent-changed-by-derivation')
                others = sorted(x for x in handles if x not in (h, new))
                if others:
                    o2 = others[(step * 7 + new) % len(others)]
                    item, cols = last_read.get(o2, (whole, None))
                    do_read(step, o2, item, cols, 'sibling-changed-by-derivation')
                    ctx.probe('sibling_reread')
        return

    # ---------------------------------------------------------------------------------- C03
    from phylib.io.traces import extract_waveforms, export_waveforms, get_spike_waveforms
    from phylib.utils import Bunch
    sc = cfg['scenario']
    w = sc['w']
    spikes = np.array(sc['spikes'], dtype=sc['spike_dtype'])
    chans = np.array(sc['chans'], dtype=np.int64)
    factor = sc['factor']
    ns, n_loc = chans.shape
    cb = rec.expected_chunk_bounds()
    for s in sc['spikes']:
        if s in cb[1:-1]:
            ctx.probe('spike_on_chunk_bound')
        if s == 0:
            ctx.probe('spike_at_0')
        if s == n - 1:
            ctx.probe('spike_at_last')
        if s - w // 2 < 0:
            ctx.probe('window_exceeds_start')
        if s - w // 2 + w > n:
            ctx.probe('window_exceeds_end')
        if s - w // 2 < 0 and s - w // 2 + w > n:
            ctx.probe('window_longer_than_recording')
    if sc['spike_dtype'].startswith('u'):
        ctx.probe('unsigned_spikes')
    if (chans == -1).any():
        ctx.probe('minus_one_channel')
    if w % 2:
        ctx.probe('odd_window')
    if isinstance(factor, float):
        ctx.probe('float_factor')
    else:
        ctx.probe('int_factor')
    eps = float(np.finfo(A.dtype).eps) if A.dtype.kind == 'f' else 0.0

    def close_to(got, ref64):
        # ref64: float64 window * factor computed exactly; phylib may compute in the recording's
        # float type: allow a few ulps of that type.
        tol = 4 * eps * np.maximum(np.abs(ref64), np.abs(got)) + 0.0
        return bool(np.all(np.abs(got - ref64) <= tol))

    def export(step, cache, tag):
        path = root / ('wf_%s.npy' % tag)
        ctx.real('export_waveforms', export_waveforms, path, reader, spikes, chans,
                 n_samples_waveforms=w, cache=cache, sample2unit=factor)
        try:
            arr = np.load(path)
        except Exception as e:
            ctx.fail('exported-file-does-not-load', {'step': step, 'error': repr(e)[:300],
                                                     'file_bytes': path.stat().st_size})
        ctx.check(arr.shape == (ns, w, n_loc), 'exported-shape',
                  lambda: {'got': list(arr.shape), 'expected': [ns, w, n_loc]})
        ref = np.stack([window_ref(A, s, w, chans[i]) for i, s in enumerate(sc['spikes'])]) \
            .astype(np.float64) * factor
        ctx.check(arr.dtype.kind == 'f' and close_to(arr.astype(np.float64), ref),
                  'exported-windows',
                  lambda: {'step': step, 'dtype': str(arr.dtype),
                           'first_bad_spike': int(np.argmax(np.any(np.abs(
                               arr.astype(np.float64) - ref) > 4 * eps * np.abs(ref),
                               axis=(1, 2)))),
                           'spikes': sc['spikes'][:12], 'w': w, 'n': n, 'chunk_bounds': cb[:12]})
        if len(cb) > 2:
            ctx.probe('multi_chunk_export')
        if cfg['backend'] == 'cbin' and cache:
            ctx.probe('cbin_export_cached')
        return arr

    for step, op in enumerate(plan['ops']):
        k = op['op']
        if k == 'extract':
            ids = op['ids']
            ch = np.array(op['chans'], dtype=op['as'])
            ss = spikes[ids]
            got = ctx.real('extract_waveforms', extract_waveforms, reader, ss, ch,
                           n_samples_waveforms=w)
            ref = np.stack([window_ref(A, sc['spikes'][i], w, op['chans']) for i in ids])
            ctx.op('extract', changes_state=True)
            ctx.ev(step, 'extract', np.asarray(got))
            ctx.check(_eq(got, ref), 'extracted-windows',
                      lambda: {'step': step, 'spikes': [sc['spikes'][i] for i in ids], 'w': w,
                               'n': n, 'chans': op['chans'], 'got': _describe(got),
                               'expected': _describe(ref)})
        elif k == 'export_empty':
            ctx.op('export_empty')
            prev = [i for i in range(step) if plan['ops'][i]['op'] == 'export']
            path = root / ('wf_%s.npy' % (prev[-1] if (op['over'] and prev) else 'empty%d' % step))
            ctx.real('export_waveforms', export_waveforms, path, reader,
                     spikes[:0], chans[:0], n_samples_waveforms=w, sample2unit=factor)
            try:
                arr0 = np.load(path)
            except Exception as e:
                ctx.fail('exported-file-does-not-load', {'step': step, 'error': repr(e)[:300],
                                                         'empty_export': True})
            ctx.check(arr0.shape == (0, w, n_loc), 'exported-shape',
                      lambda: {'got': list(arr0.shape), 'expected': [0, w, n_loc],
                               'empty_export': True, 'over_an_earlier_export': bool(op['over'])})
            ctx.probe('export_of_no_spike')
        elif k == 'touch':
            ctx.op('touch', changes_state=False)
            a, b, co = op['a'], op['b'], list(op['cols'])
            if op['kind'] == 'cols':
                got = ctx.real('read', lambda: reader[a:b, co])
                ref = A[a:b][:, co]
            elif op['kind'] == 'derive_cols':
                got = ctx.real('read', lambda: reader[:, co][a:b])
                ref = A[a:b][:, co]
            else:
                got = ctx.real('read', lambda: (reader * op['k'])[a:b])
                ref = (A * op['k'])[a:b]
            ctx.ev(step, 'touch', np.asarray(got))
            ctx.check(_eq(got, ref), 'two-axis-read-between-routes',
                      lambda: {'step': step, 'got': _describe(got), 'expected': _describe(ref)})
            ctx.probe('reader_used_between_routes')
        elif k == 'export':
            ctx.op('export')
            arr = export(step, op['cache'], str(step))
            ctx.ev(step, 'export', arr)
        elif k == 'store_lookup':
            ctx.op('store_lookup')
            # the store indexes spikes by id: duplicates of a sample are distinct spikes
            arr = export(step, op['cache'], 'store%d' % step)
            store = Bunch(spike_ids=np.arange(ns) * 3 + 1, spike_channels=chans.astype(np.int32),
                          waveforms=arr)
            q = [int(i) * 3 + 1 for i in op['query']]
            qq = q if op['ids_as'] == 'list' else np.array(q, dtype=op['ids_as'])
            qc = np.array(op['chans'], dtype=np.int64)
            got = ctx.real('get_spike_waveforms', get_spike_waveforms, qq, qc,
                           spike_waveforms=store, n_samples_waveforms=w)
            ctx.check(got.shape == (len(q), w, len(qc)), 'store-lookup-shape',
                      lambda: {'got': list(got.shape)})
            ctx.probe('store_lookup_permuted')
            if -1 in op['chans']:
                ctx.probe('store_query_with_minus_one')
            bad = None
            for a, i in enumerate(op['query']):
                stored = set(int(x) for x in chans[i] if x != -1)
                for b, chn in enumerate(op['chans']):
                    if chn == -1:
                        if np.any(np.asarray(got[a, :, b]) != 0):
                            bad = {'query_pos': a, 'spike': sc['spikes'][i], 'channel': -1,
                                   'why': 'a channel given as -1 must be a zero column'}
                            break
                        continue
                    if chn in stored:
                        ref = window_ref(A, sc['spikes'][i], w, [chn])[:, 0].astype(np.float64) \
                            * factor
                        if not close_to(np.asarray(got[a, :, b], dtype=np.float64), ref):
                            bad = {'query_pos': a, 'spike': sc['spikes'][i], 'channel': chn}
                            break
                if bad:
                    break
            ctx.ev(step, 'store_lookup', np.asarray(got))
            ctx.check(bad is None, 'store-lookup-windows', lambda: dict(bad, step=step))
        ctx.state(cfg['backend'], len(cfg['parts']), cfg['dtype'], min(len(cb), 6), k, w % 2,
                  sc['spike_dtype'], type(factor).__name__)
