# -*- coding: utf-8 -*-
"""Command line: run / replay / seed / selftest / setup."""

import argparse
import copy
import json
import os
import random
import sys
import time
from collections import OrderedDict

from . import core, engines, seams


def _tier(args_tier):
    t = os.environ.get('VERIF_TIER') or args_tier or 'quick'
    return t if t in ('quick', 'thorough') else 'quick'


def _seed():
    try:
        return int(os.environ.get('VERIF_SEED', '0'))
    except ValueError:
        return 0


def cmd_run(prop, tier, runs=None, budget=None, quiet=False):
    seams.import_phylib()
    cfg = engines.PROPS[prop]
    parts = engines.parts_for(prop)
    seed = _seed()
    batch = core.Batch()
    batch.wall_s = 0.0
    n_explicit = 0
    engine = parts[0][1]
    engine_name = parts[0][0]
    for (ename, eng, quick_runs, share) in parts:
        explicit = eng.enumerate_plans(prop, tier) if hasattr(eng, 'enumerate_plans') else None
        n_explicit += len(explicit or [])
        if tier == 'quick' or runs is not None:
            if runs is not None:
                n_runs = max(1, int(runs * (quick_runs / float(parts[0][2]))))
            else:
                n_runs = int(int(os.environ.get('VERIF_RUNS', 0)) * quick_runs / parts[0][2]) \
                    or quick_runs
            b = core.run_batch(ename, prop, tier, seed, n_runs=n_runs, explicit_plans=explicit,
                               stop_on_violation=bool(os.environ.get('VERIF_STOP_ON_VIOLATION')))
        else:
            budget_s = budget if budget is not None else float(
                os.environ.get('VERIF_BUDGET_S', cfg['thorough_s']))
            b = core.run_batch(ename, prop, tier, seed, budget_s=budget_s * share,
                               explicit_plans=explicit, chunk=40)
        for v in b.violations:
            v['engine'] = ename
        for h in b.harness:
            h['engine'] = ename
        batch.merge(b)
    explicit = n_explicit
    by_engine = dict((p[0], p[1]) for p in parts)

    exit_code = 0
    lines = []
    known_hits = []
    n_viol = 0
    reproduced_violations = []

    # Harness errors / nondeterminism: exit 2, never 0.
    if batch.harness:
        exit_code = 2
        for h in batch.harness[:5]:
            lines.append('HARNESS-ERROR property=%s seed=%s %s\n%s' % (
                prop, h['seed'], h['signature'], h['detail']))
            if h.get('plan') is not None:
                p = core.REPLAY_DIR / ('harness-%s-%s.json' % (prop, h['seed']))
                core.REPLAY_DIR.mkdir(exist_ok=True, parents=True)
                p.write_text(core.cjson({'property': prop, 'engine': h.get('engine', engine_name),
                                         'tier': tier, 'plan': h['plan'],
                                         'signature': h['signature']}))
                lines.append('  plan saved to %s' % p)
    nondet_line = None
    if batch.nondeterministic:
        nondet_line = ('property=%s: %d run(s) gave a different event log when executed a second '
                       'time in the same process (first seed %s)' % (
                           prop, len(batch.nondeterministic), batch.nondeterministic[0]['seed']))

    # Violations: group by signature, shrink, classify.
    by_sig = OrderedDict()
    for v in sorted(batch.violations, key=lambda v: v['index']):
        by_sig.setdefault(v['signature'], []).append(v)
    for sig, vs in list(by_sig.items())[:8]:
        # A signature may cover a listed finding and a new violation at once: split the runs.
        groups = [('known', [v for v in vs if core.match_known_finding(
                      prop, sig, v['plan'], v['detail']) is not None]),
                  ('new', [v for v in vs if core.match_known_finding(
                      prop, sig, v['plan'], v['detail']) is None])]
        for kind, group in groups:
            if not group:
                continue
            v = group[0]
            v_engine = by_engine[v.get('engine', engine_name)]
            want_known = kind == 'known'
            plan, n_exec = core.shrink(
                v_engine, v['plan'], prop, tier, sig,
                accept=lambda p_, r_: (core.match_known_finding(
                    prop, sig, p_, r_.detail) is not None) == want_known)
            res = core.execute_plan(v_engine, copy.deepcopy(plan), prop, tier)
            if not (res.verdict == 'violation' and res.signature == sig):
                # shrunk plan does not reproduce (should not happen): fall back to the original
                plan = v['plan']
                res = core.execute_plan(v_engine, copy.deepcopy(plan), prop, tier)
            kf = core.match_known_finding(prop, sig, plan, res.detail)
            path = core.write_replay(prop, v.get('engine', engine_name), plan, sig, res.detail,
                                     res.log_digest, v['seed'], tier)
            if kf is not None and want_known:
                known_hits.append({'id': kf.get('id'), 'signature': sig, 'count': len(group)})
                lines.append('KNOWN-FINDING: property=%s %s [%s; %s; %d run(s); replay=%s]' % (
                    prop, kf['description'], kf.get('id'), sig, len(group), path))
                continue
            n_viol += 1
            # fresh-process replay must reproduce exactly
            rc, out = core.fresh_process_replay(path)
            repro = (rc == 1 and ('VIOLATION property=%s' % prop) in out)
            if not repro:
                # The violation may depend on state the library keeps between the runs of one
                # worker process. Look for a run of the same signature that fails on its own in a
                # fresh interpreter and minimise it hermetically (one interpreter per candidate).
                for cand in group[:6]:
                    c_engine_name = cand.get('engine', engine_name)
                    fv = core.fresh_verdict(c_engine_name, cand['plan'], prop, tier)
                    if fv['verdict'] == 'violation' and fv['signature'] == sig:
                        plan, n_exec = core.hermetic_shrink(
                            by_engine[c_engine_name], c_engine_name, cand['plan'], prop, tier, sig)
                        res = core.execute_plan(by_engine[c_engine_name], copy.deepcopy(plan),
                                                prop, tier)
                        path = core.write_replay(prop, c_engine_name, plan, sig, res.detail,
                                                 fv['log_digest'], cand['seed'], tier)
                        rc, out = core.fresh_process_replay(path)
                        repro = (rc == 1 and ('VIOLATION property=%s' % prop) in out)
                        lines.append('  note: this violation depends on state kept by the library '
                                     'between runs of one process; minimised hermetically')
                        break
            if not repro:
                # ... or on what EARLIER runs of the same worker process left behind: search the
                # shortest history of preceding runs after which the plan fails in a fresh
                # interpreter; the replay file then carries those runs as its prelude.
                for cand in [c for c in group if c.get('prelude')][:2]:
                    c_engine_name = cand.get('engine', engine_name)
                    pre, n_pre = core.find_prelude(c_engine_name, cand['plan'], prop, tier, sig,
                                                   cand['prelude'])
                    n_exec += n_pre
                    if pre:
                        plan = cand['plan']
                        res = core.execute_plan(by_engine[c_engine_name], copy.deepcopy(plan),
                                                prop, tier)
                        path = core.write_replay(prop, c_engine_name, plan, sig, cand['detail'],
                                                 cand['log_digest'], cand['seed'], tier,
                                                 prelude=pre)
                        res.detail = cand['detail']
                        rc, out = core.fresh_process_replay(path)
                        repro = (rc == 1 and ('VIOLATION property=%s' % prop) in out)
                        lines.append('  note: this violation needs %d earlier run(s) in the same '
                                     'process (the library keeps state between runs); they are the '
                                     'prelude of the replay file' % len(pre))
                        break
            if repro:
                reproduced_violations.append(sig)
            lines.append('VIOLATION property=%s replay=%s' % (prop, path))
            lines.append('  signature=%s runs=%d shrink_execs=%d fresh_replay=%s' % (
                sig, len(group), n_exec, 'reproduced' if repro else 'NOT-REPRODUCED(rc=%s)' % rc))
            lines.append('  ops=%s' % core.cjson(plan.get('ops'))[:600])
            lines.append('  detail=%s' % core.cjson(res.detail)[:1200])
            exit_code = max(exit_code, 1) if exit_code != 2 else 2
    if nondet_line is not None:
        if reproduced_violations:
            # the library under test keeps state between runs (the replayed violation shows it);
            # reported as a note next to the violation, not as a harness failure
            lines.append('  note: ' + nondet_line + ' - consistent with state kept by the library '
                         'between runs of one process')
        else:
            exit_code = 2
            lines.append('HARNESS-ERROR nondeterministic replays: ' + nondet_line)
    if exit_code == 2 and batch.harness and reproduced_violations and \
            all(h['signature'] == 'worker-died' for h in batch.harness):
        # a worker was killed (bus error / segmentation fault inside the library or NumPy) in a
        # batch that also produced a violation reproduced in a fresh interpreter: the violation
        # stands on its replay file; the death is reported next to it, not instead of it
        exit_code = 1
        lines.append('  note: a worker process died during this batch (see above); the '
                     'violation(s) reported here were reproduced independently of it')
    if len(by_sig) > 8:
        lines.append('  (+%d further distinct signatures not minimised)' % (len(by_sig) - 8))
        n_viol += len(by_sig) - 8
        exit_code = 1 if exit_code == 0 else exit_code
    if n_viol and exit_code == 0:
        exit_code = 1

    if len(batch.nontrivial) < 2 and exit_code == 0:
        exit_code = 2
        lines.append('HARNESS-ERROR property=%s nothing explored (nontrivial=%d, blocked=%s)' % (
            prop, len(batch.nontrivial), dict(batch.blocked)))

    # Probes stuck at zero (thorough): warn.
    expected = getattr(engine, 'EXPECTED_PROBES', {}).get(prop, [])
    stuck = [p for p in expected if not batch.probes.get(p) and not batch.faults.get(p)]
    extra = {'probes_stuck_at_zero': stuck}
    if explicit:
        extra['enumerated_plans'] = explicit
        extra['enumerated_space'] = getattr(engine, 'ENUMERATED_SPACE', '')
        extra['exhaustive'] = False
        extra['exhaustive_note'] = ('the enumerated sub-space (%d plans) was executed completely; '
                                    'the seeded part is sampling' % explicit)
    if len(parts) > 1:
        extra['engines'] = [p[0] for p in parts]
        extra['rule_extra'] = {p[0]: (p[1].RULE.get(prop) if isinstance(p[1].RULE, dict) else '')
                               for p in parts[1:]}
        extra['components_extra'] = {p[0]: p[1].COMPONENTS for p in parts[1:]}
    core.write_evidence(prop, tier, seed, cfg['level'], batch, engine, extra_coverage=extra,
                        violations=n_viol, known_hits=known_hits)
    if not quiet:
        print('property=%s tier=%s seed=%d runs=%d ok=%d blocked=%d discard=%d nontrivial=%d '
              'states=%d ops=%d clauses=%d wall=%.1fs (%.0f runs/h)' % (
                  prop, tier, seed, batch.n, batch.ok, sum(batch.blocked.values()), batch.discard,
                  len(batch.nontrivial), len(batch.states), batch.ops, batch.clauses,
                  batch.wall_s, batch.n / max(batch.wall_s, 1e-9) * 3600))
        print('  faults_fired=%s' % dict(batch.faults))
        print('  probes=%s' % dict(batch.probes))
        if batch.skipped:
            print('  oracle_cases_skipped=%s' % dict(batch.skipped))
        if batch.blocked:
            print('  blocked=%s' % dict(batch.blocked))
        if stuck and tier == 'thorough':
            print('  WARNING probes stuck at zero: %s' % stuck)
    for l in lines:
        print(l)
    sys.stdout.flush()
    return exit_code


def cmd_replay(path):
    seams.import_phylib()
    same, same_log, res, doc = core.replay_file(path)
    prop = doc['property']
    print('replay property=%s signature_expected=%s got verdict=%s signature=%s log_digest_match=%s'
          % (prop, doc['signature'], res.verdict, res.signature, same_log))
    if res.verdict == 'harness_error':
        print(res.detail)
        return 2
    kf = core.match_known_finding(prop, res.signature, doc['plan'], res.detail) \
        if res.verdict == 'violation' else None
    if kf is not None:
        print('KNOWN-FINDING: property=%s %s [%s; replay=%s]' % (prop, kf['description'],
                                                                  kf.get('id'), path))
        return 0
    if same:
        print('VIOLATION property=%s replay=%s' % (prop, path))
        print('  detail=%s' % core.cjson(res.detail)[:2000])
        return 1
    if res.verdict == 'violation':
        # a different violation of the same property on the same plan is still a violation
        print('VIOLATION property=%s replay=%s (different signature: %s)' % (
            prop, path, res.signature))
        return 1
    return 0


def cmd_seed(prop, index, tier, dump=False):
    """Debug helper: execute the index-th run of the batch for VERIF_SEED."""
    seams.import_phylib()
    engine_name, engine, cfg = engines.for_prop(prop)
    seed = core.run_seed_for(_seed(), prop, index)
    plan = engine.gen(random.Random(seed), prop, tier)
    if dump:
        os.environ['PHYLIB_VERIF_DUMP_EVENTS'] = '1'
    res = core.execute_plan(engine, plan, prop, tier)
    print(json.dumps(json.loads(core.cjson({'seed': seed, 'plan': plan})), indent=1))
    print(json.dumps(json.loads(core.cjson(res.to_dict())), indent=1))
    return 0


def cmd_setup():
    """Offline setup: verify the interpreter and its packages, byte-compile nothing, run a short
    determinism sample."""
    import numpy
    import scipy  # noqa
    import mtscomp  # noqa
    import requests  # noqa
    seams.import_phylib()
    import phylib
    print('python %s numpy %s phylib from %s' % (
        sys.version.split()[0], numpy.__version__, phylib.__file__))
    from . import selftest
    return selftest.determinism(n=40, quiet=True, processes=False)


def main(argv):
    ap = argparse.ArgumentParser(prog='vcheck')
    sub = ap.add_subparsers(dest='cmd')
    r = sub.add_parser('run')
    r.add_argument('prop')
    r.add_argument('--tier', default=None)
    r.add_argument('--runs', type=int, default=None)
    r.add_argument('--budget', type=float, default=None)
    p = sub.add_parser('replay')
    p.add_argument('path')
    s = sub.add_parser('seed')
    s.add_argument('prop')
    s.add_argument('index', type=int)
    s.add_argument('--tier', default=None)
    s.add_argument('--dump', action='store_true')
    st = sub.add_parser('selftest')
    st.add_argument('what', choices=['determinism', 'sensitivity', 'seeded'])
    st.add_argument('--n', type=int, default=None)
    st.add_argument('--only', default=None)
    sub.add_parser('setup')
    a = ap.parse_args(argv)
    if a.cmd == 'run':
        return cmd_run(a.prop, _tier(a.tier), runs=a.runs, budget=a.budget)
    if a.cmd == 'replay':
        return cmd_replay(a.path)
    if a.cmd == 'seed':
        return cmd_seed(a.prop, a.index, _tier(a.tier), dump=a.dump)
    if a.cmd == 'setup':
        return cmd_setup()
    if a.cmd == 'selftest':
        from . import selftest
        if a.what == 'determinism':
            return selftest.determinism(n=a.n or 200, only=a.only)
        if a.what == 'sensitivity':
            return selftest.sensitivity(only=a.only)
        if a.what == 'seeded':
            return selftest.seeded(only=a.only)
    ap.print_help()
    return 2
