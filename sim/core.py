# -*- coding: utf-8 -*-
"""Shared simulator core: plan -> run -> oracle -> shrink -> replay -> evidence.

One run = executing one self-contained JSON plan against the real phylib code with the seams of
`sim.seams` installed, while a reference model / oracle of the engine is evaluated step by step.
Everything a run does is a pure function of the plan; a plan is a pure function of its run seed.
"""

import copy
import hashlib
import json
import os
import random
import shutil
import signal
import sys
import time
import traceback
from collections import Counter
from concurrent.futures import ProcessPoolExecutor
from concurrent.futures.process import BrokenProcessPool
import multiprocessing as mp
from pathlib import Path

import numpy as np

VERIF = Path(__file__).resolve().parent.parent
EVIDENCE_DIR = Path(os.environ.get('PHYLIB_VERIF_EVIDENCE_DIR') or (VERIF / 'evidence'))
REPLAY_DIR = Path(os.environ.get('PHYLIB_VERIF_REPLAY_DIR') or (VERIF / 'replays'))
KNOWN_FINDINGS = VERIF / 'known_findings.json'

RUN_ALARM_S = 30  # per-run wall-clock alarm; exceeding it is a harness error, never a pass


# --------------------------------------------------------------------------------------------------
# Exceptions / verdicts
# --------------------------------------------------------------------------------------------------

class Violation(Exception):
    """An oracle clause of the property under check failed."""
    def __init__(self, clause, detail=None):
        super().__init__(clause)
        self.clause = clause
        self.detail = detail


class RealCodeError(Exception):
    """The real phylib code raised inside an operation."""
    def __init__(self, opname, exc, owned, tb):
        super().__init__('%s: %r' % (opname, exc))
        self.opname = opname
        self.exc = exc
        self.owned = owned
        self.tb = tb


class Discard(Exception):
    """The generated case is outside the statement's domain (generator-side rejection)."""


class HarnessTimeout(BaseException):
    pass


# --------------------------------------------------------------------------------------------------
# Canonical JSON / digests
# --------------------------------------------------------------------------------------------------

def _jsonable(o):
    if isinstance(o, (np.integer,)):
        return int(o)
    if isinstance(o, (np.floating,)):
        return float(o)
    if isinstance(o, np.bool_):
        return bool(o)
    if isinstance(o, np.ndarray):
        return {'__nd__': adigest(o)}
    if isinstance(o, (set, frozenset)):
        return sorted(o)
    if isinstance(o, tuple):
        return list(o)
    if isinstance(o, bytes):
        return {'__b__': hashlib.sha1(o).hexdigest()[:16], 'n': len(o)}
    if isinstance(o, Path):
        return o.name
    raise TypeError('not jsonable: %r' % type(o))


def _plain(o):
    """A violation detail as plain JSON data: whatever the code under test handed back (a reader
    where an array was expected, an open file, ...) is replaced by its repr, so that the detail can
    always be sent between processes and written to the replay file."""
    def fallback(x):
        try:
            return _jsonable(x)
        except TypeError:
            return '<%s>' % repr(x)[:120]
    try:
        return json.loads(json.dumps(o, sort_keys=True, default=fallback))
    except Exception:
        return '<%s>' % repr(o)[:300]


def cjson(o):
    return json.dumps(o, sort_keys=True, separators=(',', ':'), default=_jsonable)


def digest(o):
    return hashlib.sha256(cjson(o).encode()).hexdigest()[:20]


def adigest(a):
    """Digest of an array: dtype, shape, bytes (NaN-stable because bytes are compared)."""
    a = np.asarray(a)
    h = hashlib.sha1()
    h.update(str(a.dtype).encode())
    h.update(str(a.shape).encode())
    h.update(np.ascontiguousarray(a).tobytes())
    return h.hexdigest()[:16]


# --------------------------------------------------------------------------------------------------
# Run context
# --------------------------------------------------------------------------------------------------

_SCRATCH_BASE = None
_SCRATCH_COUNTER = [0]


def scratch_base():
    global _SCRATCH_BASE
    if _SCRATCH_BASE is None:
        root = os.environ.get('PHYLIB_VERIF_SCRATCH')
        if not root:
            root = '/dev/shm' if os.path.isdir('/dev/shm') and os.access('/dev/shm', os.W_OK) \
                else (os.environ.get('TMPDIR') or '/tmp')
        _SCRATCH_BASE = Path(root) / 'phyverif'
        _SCRATCH_BASE.mkdir(parents=True, exist_ok=True)
    return _SCRATCH_BASE


class Ctx(object):
    """Everything a run records: event log, counters, the verdict inputs."""

    def __init__(self, prop, tier='quick'):
        self.prop = prop
        self.tier = tier
        self.events = []
        self.faults = Counter()   # fault kind -> number of times it FIRED (not: was configured)
        self.probes = Counter()   # rare-condition probes
        self.states = set()       # engine-specific abstract states reached
        self.clauses = 0          # oracle clauses of this property evaluated
        self.state_changes = 0    # state-changing ops executed before/among the clauses
        self.ops = 0
        self.skipped = Counter()
        self._scratch = None
        self._cleanup = []

    # -- logging (never draws randomness, never reads a clock) --
    def ev(self, *items):
        # arrays are digested NOW: a returned block may be a view on a mapping that is closed (or
        # a buffer that is reused) before the log is hashed at the end of the run
        self.events.append(tuple({'__nd__': adigest(x)} if isinstance(x, np.ndarray) else x
                                 for x in items))

    def op(self, name, changes_state=True):
        self.ops += 1
        if changes_state:
            self.state_changes += 1

    def state(self, *abstract):
        self.states.add(abstract)

    def probe(self, name, n=1):
        self.probes[name] += n

    def fault(self, name, n=1):
        self.faults[name] += n

    # -- oracle --
    def check(self, cond, clause, detail=None):
        self.clauses += 1
        if not cond:
            if callable(detail):
                detail = detail()
            raise Violation(clause, detail)

    def fail(self, clause, detail=None):
        self.clauses += 1
        raise Violation(clause, detail)

    # -- calling the real code --
    def real(self, opname, fn, *args, owners=None, **kwargs):
        """Call into phylib. An exception there is attributed to the property that owns the op."""
        try:
            return fn(*args, **kwargs)
        except (Violation, Discard, HarnessTimeout):
            raise
        except Exception as e:  # noqa
            owned = owners is None or self.prop in owners
            raise RealCodeError(opname, e, owned, traceback.format_exc(limit=8))

    # -- scratch --
    def scratch(self):
        if self._scratch is None:
            _SCRATCH_COUNTER[0] += 1
            p = scratch_base() / ('%d-%d' % (os.getpid(), _SCRATCH_COUNTER[0]))
            if p.exists():
                shutil.rmtree(p, ignore_errors=True)
            p.mkdir(parents=True)
            self._scratch = p
        return self._scratch

    def on_cleanup(self, fn):
        self._cleanup.append(fn)

    def cleanup(self):
        for fn in reversed(self._cleanup):
            try:
                fn()
            except Exception:
                pass
        self._cleanup = []
        if self._scratch is not None:
            shutil.rmtree(self._scratch, ignore_errors=True)
            self._scratch = None


class Result(object):
    __slots__ = ('verdict', 'signature', 'detail', 'log_digest', 'plan_digest', 'nontrivial',
                 'faults', 'probes', 'states', 'ops', 'clauses', 'skipped', 'n_events')

    def to_dict(self):
        return {k: getattr(self, k) for k in self.__slots__}


def _alarm_handler(signum, frame):
    raise HarnessTimeout()


def execute_plan(engine, plan, prop, tier='quick', alarm=True):
    """Execute one plan. Returns a Result. Never raises (except KeyboardInterrupt)."""
    ctx = Ctx(prop, tier)
    res = Result()
    res.verdict = 'ok'
    res.signature = None
    res.detail = None
    if alarm:
        old = signal.signal(signal.SIGALRM, _alarm_handler)
        signal.alarm(RUN_ALARM_S)
    try:
        try:
            engine.execute(plan, ctx)
        finally:
            if alarm:
                signal.alarm(0)
    except Violation as v:
        res.verdict = 'violation'
        res.signature = '%s:%s' % (prop, v.clause)
        res.detail = _plain(v.detail)
    except RealCodeError as e:
        if e.owned:
            res.verdict = 'violation'
            res.signature = '%s:exc:%s:%s' % (prop, e.opname, type(e.exc).__name__)
            res.detail = {'exception': repr(e.exc)[:500], 'traceback': e.tb[-1500:]}
        else:
            res.verdict = 'blocked'
            res.signature = 'blocked:%s:%s' % (e.opname, type(e.exc).__name__)
            res.detail = {'exception': repr(e.exc)[:300]}
    except Discard as d:
        res.verdict = 'discard'
        res.signature = 'discard:%s' % (d.args[0] if d.args else '')
    except HarnessTimeout:
        res.verdict = 'harness_error'
        res.signature = 'timeout'
        res.detail = 'run exceeded %d s' % RUN_ALARM_S
    except Exception as e:  # harness bug: never reported as a violation
        res.verdict = 'harness_error'
        res.signature = 'harness:%s' % type(e).__name__
        res.detail = traceback.format_exc(limit=12)
    finally:
        if alarm:
            signal.signal(signal.SIGALRM, old)
        ctx.cleanup()
    res.log_digest = digest(ctx.events)
    res.n_events = len(ctx.events)
    res.plan_digest = digest(plan)
    res.nontrivial = bool(ctx.clauses >= 1 and ctx.state_changes >= 1)
    res.faults = dict(ctx.faults)
    res.probes = dict(ctx.probes)
    res.states = set(ctx.states)
    res.ops = ctx.ops
    res.clauses = ctx.clauses
    res.skipped = dict(ctx.skipped)
    if os.environ.get('PHYLIB_VERIF_DUMP_EVENTS'):
        res.detail = {'detail': res.detail, 'events': json.loads(cjson(ctx.events))}
    return res


# --------------------------------------------------------------------------------------------------
# Batch execution (fan-out over forked workers)
# --------------------------------------------------------------------------------------------------

def run_seed_for(batch_seed, prop, index):
    """The run seed of the index-th run of a batch: a pure function of (VERIF_SEED, prop, index)."""
    h = hashlib.sha256(('%d/%s/%d' % (batch_seed, prop, index)).encode()).digest()
    return int.from_bytes(h[:6], 'big')


def _worker_init():
    import faulthandler
    faulthandler.enable()
    import logging
    logging.disable(logging.CRITICAL)
    import warnings
    warnings.filterwarnings('ignore')


# The plans this worker PROCESS executed most recently (across chunks): when a violation does not
# reproduce on its own in a fresh interpreter, the library under test may be keeping state between
# runs (a module-level cache, a mutable default argument, ...); the runs that came before are then
# part of the history that produced it, and become the `prelude` of the replay file.
_HISTORY = []
HISTORY_LEN = 64
_PRELUDE_BUDGET = [3]      # violations per worker process that carry their history along


def _run_chunk(args):
    """Worker: generate + execute a chunk of runs. Returns aggregated, compact results."""
    engine_name, prop, tier, items, resample = args
    from . import engines
    engine = engines.get(engine_name)
    out = {
        'n': 0, 'ok': 0, 'blocked': Counter(), 'discard': 0,
        'violations': [], 'harness': [],
        'faults': Counter(), 'probes': Counter(), 'states': set(), 'ops': 0, 'clauses': 0,
        'nontrivial_digests': set(), 'skipped': Counter(),
        'samples': [], 'resampled': 0, 'nondeterministic': [], 'digests': [],
    }
    collect = bool(os.environ.get('PHYLIB_VERIF_COLLECT_DIGESTS'))
    for (index, seed, plan) in items:
        if plan is None:
            plan = engine.gen(random.Random(seed), prop, tier)
        res = execute_plan(engine, plan, prop, tier)
        out['n'] += 1
        if collect:
            out['digests'].append((index, res.plan_digest, res.log_digest, res.verdict))
        out['ops'] += res.ops
        out['clauses'] += res.clauses
        out['faults'].update(res.faults)
        out['probes'].update(res.probes)
        out['skipped'].update(res.skipped)
        out['states'] |= res.states
        if res.verdict == 'ok':
            out['ok'] += 1
            if res.nontrivial:
                out['nontrivial_digests'].add(res.plan_digest)
            if len(out['samples']) < 2 and res.nontrivial:
                out['samples'].append({'seed': seed, 'plan': plan, 'faults_fired': res.faults})
        elif res.verdict == 'violation':
            if res.nontrivial:
                out['nontrivial_digests'].add(res.plan_digest)
            out['violations'].append(
                {'index': index, 'seed': seed, 'signature': res.signature, 'detail': res.detail,
                 'plan': plan, 'log_digest': res.log_digest,
                 'prelude': None})
            if _PRELUDE_BUDGET[0] > 0:
                _PRELUDE_BUDGET[0] -= 1
                out['violations'][-1]['prelude'] = [copy.deepcopy(h) for h in _HISTORY]
        elif res.verdict == 'blocked':
            out['blocked'][res.signature] += 1
        elif res.verdict == 'discard':
            out['discard'] += 1
        else:
            out['harness'].append(
                {'index': index, 'seed': seed, 'signature': res.signature, 'detail': res.detail,
                 'plan': plan})
        _HISTORY.append({'engine': engine_name, 'plan': plan})
        del _HISTORY[:-HISTORY_LEN]
        # Determinism resample: same plan, same process, second execution.
        if resample and (index % resample == 0) and res.verdict in ('ok', 'violation'):
            res2 = execute_plan(engine, copy.deepcopy(plan), prop, tier)
            out['resampled'] += 1
            if (res2.log_digest, res2.signature) != (res.log_digest, res.signature):
                out['nondeterministic'].append({'seed': seed, 'plan': plan})
    out['states'] = list(out['states'])
    out['nontrivial_digests'] = list(out['nontrivial_digests'])
    return out


def n_workers():
    try:
        n = int(os.environ.get('VERIF_WORKERS', '0'))
    except ValueError:
        n = 0
    return n or min(16, os.cpu_count() or 1)


class Batch(object):
    """Accumulates the results of many chunks."""
    def __init__(self):
        self.n = 0
        self.ok = 0
        self.blocked = Counter()
        self.discard = 0
        self.violations = []
        self.harness = []
        self.faults = Counter()
        self.probes = Counter()
        self.states = set()
        self.ops = 0
        self.clauses = 0
        self.nontrivial = set()
        self.skipped = Counter()
        self.samples = []
        self.resampled = 0
        self.nondeterministic = []
        self.digests = []

    def add(self, out):
        self.digests.extend(out.get('digests', []))
        self.n += out['n']
        self.ok += out['ok']
        self.blocked.update(out['blocked'])
        self.discard += out['discard']
        self.violations.extend(out['violations'])
        self.harness.extend(out['harness'])
        self.faults.update(out['faults'])
        self.probes.update(out['probes'])
        self.skipped.update(out['skipped'])
        self.states |= set(tuple(s) if isinstance(s, list) else s for s in out['states'])
        self.ops += out['ops']
        self.clauses += out['clauses']
        self.nontrivial |= set(out['nontrivial_digests'])
        if len(self.samples) < 3:
            self.samples.extend(out['samples'][:3 - len(self.samples)])
        self.resampled += out['resampled']
        self.nondeterministic.extend(out['nondeterministic'])


def _batch_merge(self, other):
    self.n += other.n
    self.ok += other.ok
    self.blocked.update(other.blocked)
    self.discard += other.discard
    self.violations.extend(other.violations)
    self.harness.extend(other.harness)
    self.faults.update(other.faults)
    self.probes.update(other.probes)
    self.skipped.update(other.skipped)
    self.states |= set((getattr(other, 'tag', ''),) + tuple(s) for s in other.states)
    self.ops += other.ops
    self.clauses += other.clauses
    self.nontrivial |= other.nontrivial
    self.samples = (self.samples + other.samples[:2])[:4]
    self.resampled += other.resampled
    self.nondeterministic.extend(other.nondeterministic)
    self.wall_s = getattr(self, 'wall_s', 0.0) + getattr(other, 'wall_s', 0.0)


Batch.merge = _batch_merge


def run_batch(engine_name, prop, tier, batch_seed, n_runs=None, budget_s=None, chunk=25,
              explicit_plans=None, resample=50, start_index=0, stop_on_violation=False):
    """Run a batch: either `n_runs` runs, or runs until `budget_s` seconds elapsed.

    explicit_plans: list of plans executed first (enumerated part).
    """
    batch = Batch()
    workers = n_workers()
    t0 = time.time()
    ctx = mp.get_context('fork')

    def chunks():
        index = start_index
        if explicit_plans:
            items = []
            for plan in explicit_plans:
                items.append((index, -1, plan))
                index += 1
                if len(items) >= chunk * 4:
                    yield items
                    items = []
            if items:
                yield items
        done = 0
        while True:
            if n_runs is not None and done >= n_runs:
                return
            k = chunk if n_runs is None else min(chunk, n_runs - done)
            items = [(index + i, run_seed_for(batch_seed, prop, index + i), None) for i in range(k)]
            index += k
            done += k
            yield items

    gen = chunks()
    pending = set()
    exhausted = False
    with ProcessPoolExecutor(max_workers=workers, mp_context=ctx, initializer=_worker_init) as ex:
        try:
            while True:
                # keep the pool fed
                while not exhausted and len(pending) < workers * 2:
                    if budget_s is not None and time.time() - t0 > budget_s:
                        exhausted = True
                        break
                    if stop_on_violation and any(
                            match_known_finding(prop, v['signature'], v['plan'], v['detail']) is None
                            for v in batch.violations):
                        exhausted = True
                        break
                    try:
                        items = next(gen)
                    except StopIteration:
                        exhausted = True
                        break
                    pending.add(ex.submit(_run_chunk, (engine_name, prop, tier, items, resample)))
                if not pending:
                    break
                done_now = [f for f in pending if f.done()]
                if not done_now:
                    time.sleep(0.005)
                    continue
                for f in done_now:
                    pending.discard(f)
                    batch.add(f.result())
        except BrokenProcessPool:
            batch.harness.append({'index': -1, 'seed': -1, 'signature': 'worker-died',
                                  'detail': 'a worker process died (see faulthandler output)',
                                  'plan': None})
    batch.wall_s = time.time() - t0
    return batch


# --------------------------------------------------------------------------------------------------
# Shrinking (delta debugging over the plan)
# --------------------------------------------------------------------------------------------------

def shrink(engine, plan, prop, tier, signature, max_exec=300, max_s=60, accept=None):
    """ddmin over plan['ops'] + engine.simplify(plan) candidates; keep iff same signature (and,
    when given, iff accept(plan, result) holds: used to keep a new violation from being shrunk
    into the input class of a known finding, or vice versa)."""
    t0 = time.time()
    n_exec = [0]

    def still_fails(p):
        if n_exec[0] >= max_exec or time.time() - t0 > max_s:
            return False
        n_exec[0] += 1
        try:
            if hasattr(engine, 'validate') and not engine.validate(p):
                return False
        except Exception:
            return False
        r = execute_plan(engine, copy.deepcopy(p), prop, tier)
        if not (r.verdict == 'violation' and r.signature == signature):
            return False
        return accept is None or bool(accept(p, r))

    best = copy.deepcopy(plan)
    changed = True
    rounds = 0
    while changed and rounds < 6:
        changed = False
        rounds += 1
        # 1. ddmin on ops
        ops = best.get('ops')
        if ops:
            n = 2
            while len(ops) >= 1 and n <= max(2, len(ops)) * 2:
                size = max(1, len(ops) // n)
                removed = False
                i = 0
                while i < len(ops):
                    cand_ops = ops[:i] + ops[i + size:]
                    cand = dict(best, ops=cand_ops)
                    if len(cand_ops) < len(ops) and still_fails(cand):
                        ops = cand_ops
                        best = cand
                        removed = True
                        changed = True
                    else:
                        i += size
                if size == 1:
                    break
                if not removed:
                    n *= 2
                if n_exec[0] >= max_exec or time.time() - t0 > max_s:
                    break
        # 2. engine-specific simplifications
        if hasattr(engine, 'simplify'):
            progress = True
            while progress:
                progress = False
                for cand in engine.simplify(best):
                    if digest(cand) == digest(best):
                        continue
                    if still_fails(cand):
                        best = cand
                        progress = True
                        changed = True
                        break
                if n_exec[0] >= max_exec or time.time() - t0 > max_s:
                    break
        if n_exec[0] >= max_exec or time.time() - t0 > max_s:
            break
    return best, n_exec[0]


def fresh_verdict(engine_name, plan, prop, tier, prelude=None):
    """Verdict of one plan executed in a fresh interpreter (no state from earlier runs), after
    the plans of `prelude` (list of {'engine', 'plan'}) executed in that same interpreter."""
    import subprocess
    import tempfile
    with tempfile.NamedTemporaryFile('w', suffix='.json', delete=False, dir=str(scratch_base())) as f:
        f.write(cjson({'engine': engine_name, 'property': prop, 'tier': tier, 'plan': plan,
                       'prelude': prelude or []}))
        name = f.name
    try:
        p = subprocess.run([sys.executable, '-X', 'faulthandler', str(VERIF / 'vcheck.py'), '_exec',
                            name], capture_output=True, text=True, timeout=600)
        line = [l for l in p.stdout.splitlines() if l.startswith('{')]
        return json.loads(line[-1]) if line else {'verdict': 'harness_error', 'signature': None}
    finally:
        os.unlink(name)


def hermetic_shrink(engine, engine_name, plan, prop, tier, signature, max_exec=40):
    """ddmin over the ops with every candidate executed in a fresh interpreter: the fallback
    when a violation depends on state the library keeps between runs of one process."""
    n_exec = [0]

    def fails(p):
        if n_exec[0] >= max_exec:
            return False
        n_exec[0] += 1
        try:
            if hasattr(engine, 'validate') and not engine.validate(p):
                return False
        except Exception:
            return False
        v = fresh_verdict(engine_name, p, prop, tier)
        return v['verdict'] == 'violation' and v['signature'] == signature
    best = copy.deepcopy(plan)
    ops = best.get('ops') or []
    i = 0
    while i < len(ops) and n_exec[0] < max_exec:
        cand = dict(best, ops=ops[:i] + ops[i + 1:])
        if fails(cand):
            ops = cand['ops']
            best = cand
        else:
            i += 1
    if hasattr(engine, 'simplify'):
        progress = True
        while progress and n_exec[0] < max_exec:
            progress = False
            for cand in engine.simplify(best):
                if n_exec[0] >= max_exec:
                    break
                if fails(cand):
                    best = cand
                    progress = True
                    break
    return best, n_exec[0]


def execute_with_prelude(doc):
    """Execute the prelude plans of a replay / exec document, then its plan; returns the Result
    of the plan."""
    from . import engines
    prop, tier = doc['property'], doc.get('tier', 'quick')
    for h in doc.get('prelude') or []:
        execute_plan(engines.get(h['engine']), copy.deepcopy(h['plan']), prop, tier)
    return execute_plan(engines.get(doc['engine']), doc['plan'], prop, tier)


def find_prelude(engine_name, plan, prop, tier, signature, history, max_exec=40):
    """A violation that does not reproduce on its own: look for the shortest suffix of the runs
    that preceded it in its worker process after which it does (1, 2, 4, ... runs), then drop
    every prelude run that is not needed. Every candidate runs in its own fresh interpreter.
    Returns (prelude or None, number of executions)."""
    n_exec = [0]

    def fails(pre):
        n_exec[0] += 1
        v = fresh_verdict(engine_name, plan, prop, tier, prelude=pre)
        return v['verdict'] == 'violation' and v['signature'] == signature
    history = list(history or [])
    k = 1
    found = None
    while k <= len(history) and n_exec[0] < max_exec:
        if fails(history[-k:]):
            found = history[-k:]
            break
        if k == len(history):
            break
        k = min(2 * k, len(history))
    if found is None:
        return None, n_exec[0]
    i = 0
    while i < len(found) and n_exec[0] < max_exec and len(found) > 1:
        cand = found[:i] + found[i + 1:]
        if fails(cand):
            found = cand
        else:
            i += 1
    return found, n_exec[0]


# --------------------------------------------------------------------------------------------------
# Known findings
# --------------------------------------------------------------------------------------------------

def load_known_findings():
    if not KNOWN_FINDINGS.exists():
        return []
    data = json.loads(KNOWN_FINDINGS.read_text())
    return data.get('findings', [])


def _plan_env(plan, detail=None):
    env = {'plan': plan, 'cfg': plan.get('cfg', {}), 'ops': plan.get('ops', []),
           'detail': detail if isinstance(detail, dict) else {},
           'len': len, 'any': any, 'all': all, 'min': min, 'max': max, 'sum': sum, 'set': set,
           'isinstance': isinstance, 'str': str, 'int': int, 'dict': dict, 'list': list}
    return env


def match_known_finding(prop, signature, plan, detail=None):
    """Return the open finding that pins exactly this (signature, input class), if any."""
    for f in load_known_findings():
        if f.get('status') != 'open' or prop not in (f.get('property'), *f.get('properties', [])):
            continue
        if f.get('signature') != signature:
            continue
        pred = f.get('predicate', 'True')
        try:
            if eval(pred, {'__builtins__': {}}, _plan_env(plan, detail)):
                return f
        except Exception:
            continue
    return None


# --------------------------------------------------------------------------------------------------
# Replay files
# --------------------------------------------------------------------------------------------------

def repo_rev():
    try:
        import subprocess
        repo = os.environ.get('PHYLIB_VERIF_REPO', '/repo')
        rev = subprocess.check_output(['git', '-C', repo, 'rev-parse', '--short', 'HEAD'],
                                      stderr=subprocess.DEVNULL).decode().strip()
        dirty = subprocess.check_output(['git', '-C', repo, 'status', '--porcelain', '-uno'],
                                        stderr=subprocess.DEVNULL).decode().strip()
        return rev + ('+dirty' if dirty else '')
    except Exception:
        return 'unknown'


def write_replay(prop, engine_name, plan, signature, detail, log_digest, seed, tier, prelude=None):
    REPLAY_DIR.mkdir(exist_ok=True, parents=True)
    slug = ''.join(c if c.isalnum() else '-' for c in signature)[:70]
    path = REPLAY_DIR / ('%s-%s-%s.json' % (prop, slug, seed))
    doc = {'property': prop, 'engine': engine_name, 'tier': tier, 'plan': plan,
           'signature': signature, 'detail': detail, 'log_digest': log_digest,
           'repo_rev': repo_rev(), 'created_by_seed': seed}
    if prelude:
        # runs executed before the plan in the same interpreter: the library under test keeps state
        # between runs of one process, and these earlier runs are part of the failing history
        doc['prelude'] = prelude
    path.write_text(json.dumps(json.loads(cjson(doc)), indent=1))
    return path


def replay_file(path):
    """Execute a replay file. Returns (reproduced, result, doc)."""
    from . import engines
    doc = json.loads(Path(path).read_text())
    res = execute_with_prelude(doc)
    same = (res.verdict == 'violation' and res.signature == doc['signature'])
    same_log = (res.log_digest == doc.get('log_digest'))
    return same, same_log, res, doc


def fresh_process_replay(path):
    """Replay in a fresh interpreter (what a user would do). Returns exit code and stdout."""
    import subprocess
    env = dict(os.environ)
    p = subprocess.run([str(VERIF / 'vcheck'), 'replay', str(path)], capture_output=True,
                       text=True, env=env, timeout=300)
    return p.returncode, p.stdout


# --------------------------------------------------------------------------------------------------
# Evidence
# --------------------------------------------------------------------------------------------------

def write_evidence(prop, tier, seed, level, batch, engine, extra_coverage=None, violations=0,
                   known_hits=None, exhaustive=None):
    EVIDENCE_DIR.mkdir(exist_ok=True, parents=True)
    wall = getattr(batch, 'wall_s', 0.0)
    cov = {
        'evaluations': batch.n,
        'distinct_nontrivial': len(batch.nontrivial),
        'rule': engine.RULE.get(prop, engine.RULE.get('*', '')) if isinstance(engine.RULE, dict)
        else engine.RULE,
        'samples': json.loads(cjson(batch.samples[:3])),
        'ops_executed': batch.ops,
        'oracle_clauses_evaluated': batch.clauses,
        'runs_ok': batch.ok,
        'runs_blocked_by_other_property': dict(batch.blocked),
        'runs_discarded_outside_domain': batch.discard,
        'runs_per_hour': int(batch.n / wall * 3600) if wall > 0 else 0,
        'simulated_time': 'no clock or timer in any code this property anchors; simulated time is '
                          'the logical step counter: %d operations' % batch.ops,
        'faults_fired': dict(batch.faults),
        'probes': dict(batch.probes),
        'oracle_cases_skipped': dict(batch.skipped),
        'distinct_abstract_states': len(batch.states),
        'abstract_state_measure': getattr(engine, 'STATE_MEASURE', ''),
        'components': engine.COMPONENTS,
        'determinism_resamples': batch.resampled,
        'determinism_divergences': len(batch.nondeterministic),
        'known_findings_hit': known_hits or [],
        'workers': n_workers(),
        'repo_rev': repo_rev(),
    }
    if exhaustive is not None:
        cov['exhaustive'] = exhaustive
    if extra_coverage:
        cov.update(extra_coverage)
    doc = {
        'property_id': prop, 'tier': tier, 'seed': int(seed), 'level': level,
        'coverage': cov,
        'assumptions': list(getattr(engine, 'ASSUMPTIONS', [])) + [
            'NumPy-2 compatibility shim for phylib.io.traces imports (DESIGN.md 1.3) is trusted',
            'NumPy, SciPy, mtscomp codec, csv/json and the kernel file system run as real code '
            'and are trusted',
            'sampling, not proof: a clean batch is evidence only for the explored plans',
        ],
        'wall_s': round(wall, 3),
        'violations': int(violations),
    }
    path = EVIDENCE_DIR / ('%s.json' % prop)
    tmp = path.with_suffix('.json.tmp')
    tmp.write_text(json.dumps(doc, indent=1, sort_keys=True))
    os.replace(tmp, path)
    return path
